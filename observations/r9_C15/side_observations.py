"""
Side observations for property C15:

    "A sub-query used inside a query means the same as its conditions inlined"

Run with
    PYTHONPATH=/tmp/r9_C15/src /venv/bin/python /tmp/r9_C15/side_observations.py

Every function is self-contained (own classes, own data), prints what the property demands (computed in plain Python
and/or with the inlined spelling of the same query) and what the library returns, and ends with one summary line
`VIOLATED <name>` or `holds <name>`.
"""
from dataclasses import dataclass, field

from entity_query_language import (symbol, symbolic_mode, rule_mode, let, an, the, entity, set_of, infer, HasType)


def _ids(rows):
    """Identity based, order-insensitive view of a result list (rows may be objects or tuples of objects)."""
    out = set()
    for r in rows:
        out.add(tuple(id(v) if not isinstance(v, (int, str, type(None))) else v for v in r) if isinstance(r, tuple)
                else (id(r) if not isinstance(r, (int, str, type(None))) else r))
    return out


def _verdict(name, violated):
    print(("VIOLATED " if violated else "holds ") + name)
    print()


# ----------------------------------------------------------------------------------------------------------------------
# 1. a comparison that has a sub-query as operand, standing LEFT of `|`
# ----------------------------------------------------------------------------------------------------------------------
def subquery_operand_left_of_disjunction():
    name = "subquery_operand_left_of_disjunction"
    print(f"--- {name}")

    @symbol
    @dataclass(eq=False)
    class Emp:
        name: str
        dept: str
        salary: int
        senior: bool = False

        def __repr__(self): return self.name

    @symbol
    @dataclass(eq=False)
    class Mgr:
        name: str
        dept: str
        salary: int

        def __repr__(self): return self.name

    emps = [Emp('ann', 'A', 50), Emp('bob', 'A', 10), Emp('cy', 'B', 99, True), Emp('dan', 'B', 5)]
    mgrs = [Mgr('mA', 'A', 30), Mgr('mC', 'C', 30)]  # department B has no manager

    # employees that earn more than a manager of their department, or are senior
    expected = [e for e in emps if any(e.salary > m.salary and m.dept == e.dept for m in mgrs) or e.senior]

    with symbolic_mode():
        e = let(Emp, emps)
        m = let(Mgr, mgrs)
        inlined = an(entity(e, ((e.salary > m.salary) & (m.dept == e.dept)) | (e.senior == True)))
    inlined_result = list(inlined.evaluate())

    with symbolic_mode():
        e = let(Emp, emps)
        m = let(Mgr, mgrs)
        nested = an(entity(e, (e.salary > an(entity(m, m.dept == e.dept)).salary) | (e.senior == True)))
    nested_result = list(nested.evaluate())

    with symbolic_mode():
        e = let(Emp, emps)
        m = let(Mgr, mgrs)
        swapped = an(entity(e, (e.senior == True) | (e.salary > an(entity(m, m.dept == e.dept)).salary)))
    swapped_result = list(swapped.evaluate())

    # the same with the sub-query as the argument of a predicate
    with symbolic_mode():
        e = let(Emp, emps)
        m = let(Mgr, mgrs)
        pred = an(entity(e, HasType(an(entity(m, m.dept == e.dept)), Mgr) | (e.senior == True)))
    pred_result = list(pred.evaluate())
    pred_expected = [e for e in emps if any(m.dept == e.dept for m in mgrs) or e.senior]

    print("expected (plain Python)                      :", expected)
    print("inlined   ((e.salary > m.salary) & c) | s    :", inlined_result)
    print("nested    (e.salary > an(entity(m,c)).salary) | s :", nested_result)
    print("nested, alternatives swapped  s | (...)      :", swapped_result)
    print("HasType(an(entity(m,c)), Mgr) | s   expected :", pred_expected, " actual:", pred_result)
    violated = _ids(nested_result) != _ids(expected) or _ids(pred_result) != _ids(pred_expected)
    _verdict(name, violated)


# ----------------------------------------------------------------------------------------------------------------------
# 2. the(...) as an operand: result depends on which side of the comparison it is written
# ----------------------------------------------------------------------------------------------------------------------
def the_operand_depends_on_side_of_comparison():
    name = "the_operand_depends_on_side_of_comparison"
    print(f"--- {name}")

    @symbol
    @dataclass(eq=False)
    class Emp:
        name: str
        dept: str
        salary: int

        def __repr__(self): return self.name

    @symbol
    @dataclass(eq=False)
    class Mgr:
        name: str
        dept: str
        salary: int

        def __repr__(self): return self.name

    emps = [Emp('ann', 'A', 50), Emp('bob', 'A', 10)]
    mgrs = [Mgr('mA', 'A', 30), Mgr('mC', 'C', 30)]
    # exactly one manager (mA) is the solution of  the(entity(m, m.dept == e.dept)), for every employee.
    expected = [e for e in emps for m in mgrs if m.dept == e.dept and m.salary < e.salary]

    def run(build):
        with symbolic_mode():
            e = let(Emp, emps)
            m = let(Mgr, mgrs)
            q = an(entity(e, build(e, m)))
        try:
            return list(q.evaluate())
        except Exception as exc:
            return f"raised {type(exc).__name__}"

    inlined = run(lambda e, m: (m.salary < e.salary) & (m.dept == e.dept))
    the_right = run(lambda e, m: e.salary > the(entity(m, m.dept == e.dept)).salary)
    the_left = run(lambda e, m: the(entity(m, m.dept == e.dept)).salary < e.salary)
    an_left = run(lambda e, m: an(entity(m, m.dept == e.dept)).salary < e.salary)
    print("expected (plain Python)                              :", expected)
    print("inlined  (m.salary < e.salary) & (m.dept == e.dept)  :", inlined)
    print("e.salary > the(entity(m, m.dept == e.dept)).salary   :", the_right)
    print("the(entity(m, m.dept == e.dept)).salary < e.salary   :", the_left)
    print("an(entity(m, m.dept == e.dept)).salary < e.salary    :", an_left)

    # second face of the same thing: with an employee whose department has no manager the first spelling raises too
    emps2 = emps + [Emp('dan', 'B', 5)]
    with symbolic_mode():
        e = let(Emp, emps2)
        m = let(Mgr, mgrs)
        q = an(entity(e, e.salary > the(entity(m, m.dept == e.dept)).salary))
    try:
        with_dan = list(q.evaluate())
    except Exception as exc:
        with_dan = f"raised {type(exc).__name__}"
    print("... first spelling, plus an employee of a department without manager (inlined: [ann]):", with_dan)
    violated = isinstance(the_left, str) or _ids(the_left) != _ids(expected)
    _verdict(name, violated)


# ----------------------------------------------------------------------------------------------------------------------
# 3. a sub-query that selects an ATTRIBUTE (an(entity(y.b, c))) used as an operand
# ----------------------------------------------------------------------------------------------------------------------
def attribute_selecting_subquery_operand():
    name = "attribute_selecting_subquery_operand"
    print(f"--- {name}")

    @symbol
    @dataclass(eq=False)
    class P:
        a: int
        b: int

        def __repr__(self): return f"P({self.a},{self.b})"

    xs = [P(5, 0)]
    ys = [P(0, 1), P(0, 2)]

    expected = [(x, y) for x in xs for y in ys if y.a == 0 and y.b != 1 and x.a == 5]
    with symbolic_mode():
        x = let(P, xs)
        y = let(P, ys)
        inlined = an(set_of([x, y], (y.a == 0) & ((y.b != 1) & (x.a == 5))))
    inlined_result = [(r[x], r[y]) for r in inlined.evaluate()]
    with symbolic_mode():
        x = let(P, xs)
        y = let(P, ys)
        nested = an(set_of([x, y], (y.a == 0) & (an(entity(y.b, x.a == 5)) != 1)))
    nested_result = [(r[x], r[y]) for r in nested.evaluate()]
    with symbolic_mode():
        x = let(P, xs)
        y = let(P, ys)
        outside = an(set_of([x, y], (y.a == 0) & (an(entity(y, x.a == 5)).b != 1)))
    outside_result = [(r[x], r[y]) for r in outside.evaluate()]
    print("(y.a == 0) & <y.b of the y's for which x.a == 5> != 1")
    print("expected (plain Python)                       :", expected)
    print("inlined                                       :", inlined_result)
    print("nested  an(entity(y.b, x.a == 5)) != 1        :", nested_result)
    print("nested  an(entity(y, x.a == 5)).b != 1        :", outside_result)

    # second face: the same kind of operand, evaluated a second time
    zs = [P(0, 1), P(2, 0), P(3, 3)]
    with symbolic_mode():
        x = let(P, xs)
        z = let(P, zs)
        q = an(entity(z, an(entity(z.a, x.a == 5)) == 2))
    first, second = list(q.evaluate()), list(q.evaluate())
    expected2 = [z for z in zs if z.a == 2]
    print("an(entity(z, an(entity(z.a, x.a == 5)) == 2))   expected:", expected2, " 1st evaluation:", first,
          " 2nd evaluation:", second)
    violated = (_ids(nested_result) != _ids(expected)) or (_ids(second) != _ids(expected2))
    _verdict(name, violated)


# ----------------------------------------------------------------------------------------------------------------------
# 4. a sub-query that selects an attribute as a constructor argument
# ----------------------------------------------------------------------------------------------------------------------
def attribute_selecting_subquery_as_constructor_argument():
    name = "attribute_selecting_subquery_as_constructor_argument"
    print(f"--- {name}")

    @symbol
    @dataclass(eq=False)
    class P:
        a: int
        b: int

        def __repr__(self): return f"P({self.a},{self.b})"

    @symbol
    @dataclass(eq=False)
    class Box:
        v: object

        def __repr__(self): return f"Box({self.v})"

    xs = [P(0, 0), P(1, 1), P(2, 0), P(3, 1)]
    expected = sorted(x.a for x in xs if x.b == 0)

    def run(build):
        with rule_mode():
            x = let(P, xs)
            q = infer(entity(build(x)))
        try:
            return sorted(b.v for b in q.evaluate())
        except Exception as exc:
            return f"raised {type(exc).__name__}: {str(exc)[:90]}"

    inlined = None
    with rule_mode():
        x = let(P, xs)
        q = infer(entity(Box(v=x.a), x.b == 0))
    inlined = sorted(b.v for b in q.evaluate())
    attr_outside = run(lambda x: Box(v=an(entity(x, x.b == 0)).a))
    attr_inside = run(lambda x: Box(v=an(entity(x.a, x.b == 0))))
    print("expected values of Box.v (plain Python)            :", expected)
    print("inlined  infer(entity(Box(v=x.a), x.b == 0))        :", inlined)
    print("Box(v=an(entity(x, x.b == 0)).a)                    :", attr_outside)
    print("Box(v=an(entity(x.a, x.b == 0)))                    :", attr_inside)
    _verdict(name, attr_inside != expected)


# ----------------------------------------------------------------------------------------------------------------------
# 5. one an(set_of(...)) object used in both alternatives of a disjunction: false positives
# ----------------------------------------------------------------------------------------------------------------------
def shared_set_of_subquery_in_both_alternatives_false_positive():
    name = "shared_set_of_subquery_in_both_alternatives_false_positive"
    print(f"--- {name}")

    @symbol
    @dataclass(eq=False)
    class Product:
        name: str
        stock: int
        active: bool
        price: int
        rating: int

        def __repr__(self): return self.name

    products = [Product('in_stock_but_dear_and_bad', 3, True, 50, 1),
                Product('OUT_OF_STOCK_cheap', 0, True, 5, 1)]

    def in_stock_py(p): return p.stock > 0 and p.active
    expected = [p for p in products if (in_stock_py(p) and p.price < 10) or (in_stock_py(p) and p.rating >= 4)]

    with symbolic_mode():
        p = let(Product, products)
        inlined = an(entity(p, (((p.stock > 0) & (p.active == True)) & (p.price < 10))
                            | (((p.stock > 0) & (p.active == True)) & (p.rating >= 4))))
    inlined_result = list(inlined.evaluate())

    with symbolic_mode():
        p = let(Product, products)
        in_stock = an(set_of([p], (p.stock > 0) & (p.active == True)))
        nested = an(entity(p, (in_stock & (p.price < 10)) | (in_stock & (p.rating >= 4))))
    nested_result = list(nested.evaluate())

    with symbolic_mode():
        p = let(Product, products)
        in_stock = an(entity(p, (p.stock > 0) & (p.active == True)))
        nested_entity = an(entity(p, (in_stock & (p.price < 10)) | (in_stock & (p.rating >= 4))))
    nested_entity_result = list(nested_entity.evaluate())

    with symbolic_mode():
        p = let(Product, products)
        nested_two_objects = an(entity(p, (an(set_of([p], (p.stock > 0) & (p.active == True))) & (p.price < 10))
                                       | (an(set_of([p], (p.stock > 0) & (p.active == True))) & (p.rating >= 4))))
    nested_two_objects_result = list(nested_two_objects.evaluate())

    print("(in_stock & cheap) | (in_stock & well_rated),  in_stock := stock > 0 & active")
    print("expected (plain Python)                              :", expected)
    print("inlined                                              :", inlined_result)
    print("in_stock = an(set_of([p], ...)), one object, used twice:", nested_result)
    print("in_stock = an(entity(p, ...)),  one object, used twice:", nested_entity_result)
    print("two separate an(set_of([p], ...)) objects            :", nested_two_objects_result)
    _verdict(name, _ids(nested_result) != _ids(expected))


# ----------------------------------------------------------------------------------------------------------------------
# 6. one an(set_of(...)) object with a disjunction inside, used by two sub-queries that are AND-ed: results lost
# ----------------------------------------------------------------------------------------------------------------------
def shared_set_of_subquery_with_disjunction_loses_results():
    name = "shared_set_of_subquery_with_disjunction_loses_results"
    print(f"--- {name}")

    @symbol
    @dataclass(eq=False)
    class Product:
        name: str
        stock: int
        preorder: bool
        price: int
        rating: int

        def __repr__(self): return self.name

    products = [Product('stocked', 3, False, 50, 1),
                Product('preorderable', 0, True, 50, 1),
                Product('cheap_and_good', 0, False, 5, 5),
                Product('only_cheap', 0, False, 5, 1)]

    def available_py(p): return p.stock > 0 or p.preorder
    expected = [p for p in products if (available_py(p) or p.price < 10) and (available_py(p) or p.rating >= 4)]

    with symbolic_mode():
        p = let(Product, products)
        inlined = an(entity(p, (((p.stock > 0) | (p.preorder == True)) | (p.price < 10))
                            & (((p.stock > 0) | (p.preorder == True)) | (p.rating >= 4))))
    inlined_result = list(inlined.evaluate())

    with symbolic_mode():
        p = let(Product, products)
        available = an(set_of([p], (p.stock > 0) | (p.preorder == True)))
        buyable = an(entity(p, available | (p.price < 10)))
        recommendable = an(entity(p, available | (p.rating >= 4)))
        nested = an(entity(p, buyable & recommendable))
    nested_result = list(nested.evaluate())
    nested_result_2 = list(nested.evaluate())

    with symbolic_mode():
        p = let(Product, products)
        available = an(set_of([p], (p.stock > 0) | (p.preorder == True)))
        flat = an(entity(p, (available | (p.price < 10)) & (available | (p.rating >= 4))))
    flat_result = list(flat.evaluate())

    with symbolic_mode():
        p = let(Product, products)
        available = an(entity(p, (p.stock > 0) | (p.preorder == True)))
        buyable = an(entity(p, available | (p.price < 10)))
        recommendable = an(entity(p, available | (p.rating >= 4)))
        nested_entity = an(entity(p, buyable & recommendable))
    nested_entity_result = list(nested_entity.evaluate())

    print("buyable & recommendable; buyable := available | cheap; recommendable := available | well_rated; "
          "available := stock > 0 | preorder")
    print("expected (plain Python)                                  :", expected)
    print("inlined                                                  :", inlined_result)
    print("available = an(set_of([p], ...)) shared by both sub-queries:", nested_result, " (evaluated again:",
          nested_result_2, ")")
    print("(available | cheap) & (available | well_rated), same object:", flat_result)
    print("available = an(entity(p, ...)) shared by both sub-queries :", nested_entity_result)
    _verdict(name, _ids(nested_result) != _ids(expected))


# ----------------------------------------------------------------------------------------------------------------------
# 7. ... and after such a query, the shared an(set_of(...)) evaluated on its own has lost a solution
# ----------------------------------------------------------------------------------------------------------------------
def shared_set_of_subquery_wrong_on_its_own_afterwards():
    name = "shared_set_of_subquery_wrong_on_its_own_afterwards"
    print(f"--- {name}")

    @symbol
    @dataclass(eq=False)
    class P:
        a: int
        b: int

        def __repr__(self): return f"P({self.a},{self.b})"

    xs = [P(2, 1), P(0, 0), P(3, 3), P(1, 2), P(5, 2)]
    expected_sub = [x for x in xs if x.a >= 1]
    expected_main = [x for x in xs if (x.a >= 1 and x.a > 2) or (x.a >= 1 and x.b < 2)]
    with symbolic_mode():
        x = let(P, xs)
        positive = an(set_of([x], x.a >= 1))
        q = an(entity(x, (positive & (x.a > 2)) | (positive & (x.b < 2))))
    before = [r[x] for r in positive.evaluate()]
    main = list(q.evaluate())
    after = [r[x] for r in positive.evaluate()]
    print("positive = an(set_of([x], x.a >= 1));  q = (positive & (x.a > 2)) | (positive & (x.b < 2))")
    print("positive on its own, expected       :", expected_sub)
    print("positive on its own, before q       :", before)
    print("q, expected                         :", expected_main, " actual:", main)
    print("positive on its own, after q        :", after)
    _verdict(name, _ids(after) != _ids(expected_sub))


# ----------------------------------------------------------------------------------------------------------------------
# 8. a sub-query that is a condition under `|` and ALSO an operand: the operand is not restricted to its solutions
# ----------------------------------------------------------------------------------------------------------------------
def subquery_false_under_disjunction_still_feeds_operand():
    name = "subquery_false_under_disjunction_still_feeds_operand"
    print(f"--- {name}")

    @symbol
    @dataclass(eq=False)
    class Emp:
        name: str
        dept: str
        level: int

        def __repr__(self): return self.name

    emps = [Emp('ann', 'A', 5), Emp('bob', 'A', 1), Emp('cy', 'B', 4), Emp('dan', 'B', 1)]
    # pairs (e, m): (m is a senior or e is senior) and e works in the department of m, m being a senior
    expected = [(e, m) for e in emps for m in emps
                if (m.level > 3 or e.level > 3) and (e.dept == m.dept and m.level > 3)]

    with symbolic_mode():
        e = let(Emp, emps)
        m = let(Emp, emps)
        inlined = an(set_of([e, m], ((m.level > 3) | (e.level > 3)) & ((e.dept == m.dept) & (m.level > 3))))
    inlined_result = [(r[e], r[m]) for r in inlined.evaluate()]

    with symbolic_mode():
        e = let(Emp, emps)
        m = let(Emp, emps)
        senior = an(entity(m, m.level > 3))
        nested = an(set_of([e, m], (senior | (e.level > 3)) & (e.dept == senior.dept)))
    nested_result = [(r[e], r[m]) for r in nested.evaluate()]

    with symbolic_mode():
        e = let(Emp, emps)
        m = let(Emp, emps)
        senior = an(entity(m, m.level > 3))
        swapped = an(set_of([e, m], (e.dept == senior.dept) & (senior | (e.level > 3))))
    swapped_result = [(r[e], r[m]) for r in swapped.evaluate()]

    key = lambda pair: (pair[0].name, pair[1].name)
    print("senior = an(entity(m, m.level > 3));  (senior | (e.level > 3)) & (e.dept == senior.dept)")
    print("expected (plain Python)                 :", sorted(expected, key=key))
    print("inlined                                 :", sorted(inlined_result, key=key))
    print("nested                                  :", sorted(nested_result, key=key))
    print("nested, conjuncts swapped               :", sorted(swapped_result, key=key))
    _verdict(name, _ids(nested_result) != _ids(expected))


if __name__ == '__main__':
    import logging
    logging.disable(logging.CRITICAL)
    observations = [subquery_operand_left_of_disjunction,
                    the_operand_depends_on_side_of_comparison,
                    attribute_selecting_subquery_operand,
                    attribute_selecting_subquery_as_constructor_argument,
                    shared_set_of_subquery_in_both_alternatives_false_positive,
                    shared_set_of_subquery_with_disjunction_loses_results,
                    shared_set_of_subquery_wrong_on_its_own_afterwards,
                    subquery_false_under_disjunction_still_feeds_operand]
    for observation in observations:
        try:
            observation()
        except Exception as exc:  # an observation must not stop the others
            import traceback
            traceback.print_exc()
            print(f"ERROR {observation.__name__}: {type(exc).__name__}")
            print()
