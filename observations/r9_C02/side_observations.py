"""
Side observations for property C02 (a multi-variable query returns exactly the satisfying assignments).

Run with:  PYTHONPATH=/tmp/r9_C02/src /venv/bin/python /tmp/r9_C02/side_observations.py

Every function is self-contained (own classes, own data), prints what the property expects and what the library
returns, and reports VIOLATED <name> / holds <name>.
"""
from dataclasses import dataclass, field

from entity_query_language import (an, set_of, entity, let, and_, or_, symbolic_mode, symbol, predicate, From, HasType,
                                   flatten)

SUMMARY = []


def report(name, violated):
    SUMMARY.append(("VIOLATED " if violated else "holds ") + name)


def srt(rows):
    return sorted(rows, key=repr)


# ----------------------------------------------------------------------------------------------------------------------
def falsy_single_object_domain():
    """
    let(T, obj) with a single object as the explicit domain ("a value or a set of values", says let's docstring): when
    the object is falsy (a container-like entity with __len__ == 0, or a __bool__ that says False) the domain is
    silently dropped and the variable ranges over EVERY instance of the class that was ever created.
    """
    name = "falsy_single_object_domain"

    @symbol
    @dataclass(eq=False)
    class Box:
        name: str
        items: list = field(default_factory=list)

        def __len__(self):
            return len(self.items)

    @symbol
    @dataclass(eq=False)
    class Shelf:
        level: int

    full, empty, other = Box("full", [1]), Box("empty", []), Box("other", [1, 2])
    shelves = [Shelf(0), Shelf(1)]

    with symbolic_mode():
        b = let(Box, empty)  # domain {empty}
        s = let(Shelf, shelves)
        query = an(set_of([b, s], s.level == 1))
    got = srt((r[b].name, r[s].level) for r in query.evaluate())
    expected = srt((x.name, y.level) for x in [empty] for y in shelves if y.level == 1)
    print(f"[{name}] domains: b in {{empty}}, s in shelves; condition s.level == 1")
    print(f"   expected rows: {expected}")
    print(f"   actual rows  : {got}")

    with symbolic_mode():
        b2 = let(Box, empty)
        s2 = let(Shelf, shelves)
        query2 = an(set_of([b2, s2], b2.name == "full"))
    got2 = srt((r[b2].name, r[s2].level) for r in query2.evaluate())
    expected2 = []  # the only value of the domain is not named "full"
    print(f"   with condition b.name == 'full': expected {expected2}, actual {got2}")

    # control: the same object inside a list is fine
    with symbolic_mode():
        b3 = let(Box, [empty])
        s3 = let(Shelf, shelves)
        query3 = an(set_of([b3, s3], s3.level == 1))
    got3 = srt((r[b3].name, r[s3].level) for r in query3.evaluate())
    print(f"   control, let(Box, [empty]): {got3}")
    report(name, got != expected or got2 != expected2)


# ----------------------------------------------------------------------------------------------------------------------
def subquery_with_predicate_condition_loses_rows():
    """
    A sub-query whose condition is a predicate (HasType, as in the docs, or a @predicate function) is used by the
    conditions of an outer multi-variable query without being selected itself. As soon as a result cache of the outer
    conditions answers for a second binding, the rows for that binding are lost (first evaluation, three variables); the
    second evaluation of a two-variable query returns nothing at all.
    """
    name = "subquery_with_predicate_condition_loses_rows"

    @symbol
    @dataclass(eq=False)
    class Body:
        size: int

    @dataclass(eq=False)
    class Container(Body):
        pass

    @symbol
    @dataclass(eq=False)
    class Robot:
        id_: int

    candidates = [Container(2), Body(1)]          # the sub-query keeps the Container only
    robots = [Robot(5), Robot(6)]
    others = [Body(0), Body(2), Body(1)]

    # (a) three variables, FIRST evaluation
    with symbolic_mode():
        c = let(Body, candidates)
        a_container = an(entity(c, HasType(c, Container)))
        r = let(Robot, robots)
        o = let(Body, others)
        query = an(set_of([r, o], r.id_ > 0, a_container.size > 0, o.size == a_container.size))
    expected = srt((x.id_, y.size) for x in robots for y in others for z in candidates
                   if isinstance(z, Container) and x.id_ > 0 and z.size > 0 and y.size == z.size)
    first = srt((row[r].id_, row[o].size) for row in query.evaluate())
    second = srt((row[r].id_, row[o].size) for row in query.evaluate())
    print(f"[{name}] (a) set_of([r, o], r.id_ > 0, sub.size > 0, o.size == sub.size), sub = an(entity(c, HasType(c, Container)))")
    print(f"   expected rows (robot id, other size): {expected}")
    print(f"   actual, 1st evaluation              : {first}")
    print(f"   actual, 2nd evaluation              : {second}")

    # (b) two variables, the SECOND evaluation loses everything
    with symbolic_mode():
        c2 = let(Body, candidates)
        sub2 = an(entity(c2, HasType(c2, Container)))
        o2 = let(Body, others)
        query_b = an(set_of([o2], sub2.size > 0, o2.size == sub2.size))
    expected_b = srt((y.size,) for y in others for z in candidates
                     if isinstance(z, Container) and z.size > 0 and y.size == z.size)
    first_b = srt((row[o2].size,) for row in query_b.evaluate())
    second_b = srt((row[o2].size,) for row in query_b.evaluate())
    print(f"   (b) set_of([o], sub.size > 0, o.size == sub.size): expected {expected_b}, 1st {first_b}, 2nd {second_b}")

    # control: the same sub-query with a comparison as its condition
    with symbolic_mode():
        c3 = let(Body, candidates)
        sub3 = an(entity(c3, c3.size == 2))
        r3 = let(Robot, robots)
        o3 = let(Body, others)
        query_c = an(set_of([r3, o3], r3.id_ > 0, sub3.size > 0, o3.size == sub3.size))
    control = srt((row[r3].id_, row[o3].size) for row in query_c.evaluate())
    print(f"   control (sub-query condition c.size == 2): {control}")
    report(name, first != expected or second != expected or first_b != expected_b or second_b != expected_b)


# ----------------------------------------------------------------------------------------------------------------------
def predicate_guard_then_operand():
    """
    The value of a @predicate is kept in a Python variable and used twice in the condition: once as a truthiness
    guard and once as an operand (the `m and m.attr == ...` pattern). After the first row, the guard stops filtering:
    falsy values pass, so rows that do not satisfy the condition are returned, or the query raises on None.
    """
    name = "predicate_guard_then_operand"

    @symbol
    @dataclass(eq=False)
    class P:
        x: int

    @symbol
    @dataclass(eq=False)
    class Q:
        x: int
        z: int = 0

    @predicate
    def diff(a, b):
        return a - b

    @predicate
    def partner(p, q):
        return q if p.x == q.x else None

    ps = [P(0), P(1), P(2)]
    qs = [Q(0, 1), Q(1, 0), Q(1, 1)]

    with symbolic_mode():
        p = let(P, ps)
        q = let(Q, qs)
        d = diff(p.x, q.x)
        query = an(set_of([p, q], d, d != q.z))
    got = srt((r[p].x, r[q].x, r[q].z) for r in query.evaluate())
    expected = srt((a.x, b.x, b.z) for a in ps for b in qs if (a.x - b.x) and (a.x - b.x) != b.z)
    print(f"[{name}] d = diff(p.x, q.x); set_of([p, q], d, d != q.z)")
    print(f"   expected rows (p.x, q.x, q.z): {expected}")
    print(f"   actual rows                  : {got}")
    extra = [row for row in got if row not in expected]
    print(f"   rows that do not satisfy the condition: {extra}")

    # control: two predicate objects instead of one
    with symbolic_mode():
        p2 = let(P, ps)
        q2 = let(Q, qs)
        query2 = an(set_of([p2, q2], diff(p2.x, q2.x), diff(p2.x, q2.x) != q2.z))
    control = srt((r[p2].x, r[q2].x, r[q2].z) for r in query2.evaluate())
    print(f"   control (diff(...) written twice): {control}")

    # the None-guard variant raises
    with symbolic_mode():
        p3 = let(P, ps)
        q3 = let(Q, qs)
        m = partner(p3, q3)
        query3 = an(set_of([p3, q3], m, m.z == 1))
    expected3 = srt((a.x, b.x, b.z) for a in ps for b in qs if partner(a, b) and partner(a, b).z == 1)
    try:
        got3 = srt((r[p3].x, r[q3].x, r[q3].z) for r in query3.evaluate())
    except Exception as e:
        got3 = f"raised {type(e).__name__}: {e}"
    print(f"   m = partner(p, q); set_of([p, q], m, m.z == 1): expected {expected3}, actual {got3}")
    report(name, got != expected or got3 != expected3)


# ----------------------------------------------------------------------------------------------------------------------
def predicate_condition_in_disjunction_and_selected():
    """
    The value of a @predicate is selected and is also the first operand of a disjunction. Rows for which the predicate
    value is falsy but the other operand holds are lost as soon as one row has been produced.
    """
    name = "predicate_condition_in_disjunction_and_selected"

    @symbol
    @dataclass(eq=False)
    class P:
        x: int

    @symbol
    @dataclass(eq=False)
    class Q:
        x: int
        z: int = 0

    @predicate
    def diff(a, b):
        return a - b

    ps = [P(0), P(1)]
    qs = [Q(1, 1)]

    with symbolic_mode():
        p = let(P, ps)
        q = let(Q, qs)
        d = diff(p.x, q.x)
        query = an(set_of([p, q, d], or_(d, q.z == 1)))
    got = srt((r[p].x, r[q].x, r[d]) for r in query.evaluate())
    expected = srt((a.x, b.x, a.x - b.x) for a in ps for b in qs if (a.x - b.x) or b.z == 1)
    print(f"[{name}] d = diff(p.x, q.x); set_of([p, q, d], or_(d, q.z == 1))")
    print(f"   expected rows (p.x, q.x, d): {expected}")
    print(f"   actual rows                : {got}")

    # control: d not selected
    with symbolic_mode():
        p2 = let(P, ps)
        q2 = let(Q, qs)
        d2 = diff(p2.x, q2.x)
        query2 = an(set_of([p2, q2], or_(d2, q2.z == 1)))
    control = srt((r[p2].x, r[q2].x) for r in query2.evaluate())
    print(f"   control (d not selected), rows (p.x, q.x): {control}")
    report(name, got != expected)


# ----------------------------------------------------------------------------------------------------------------------
def conditions_beside_a_set_of_are_dropped():
    """
    an(entity_, *properties) documents properties as "conditions that define the entity" and applies them for
    an(variable, cond) and an([p, q], cond); for an(set_of([p, q]), cond) they are dropped without a word and the whole
    Cartesian product comes back.
    """
    name = "conditions_beside_a_set_of_are_dropped"

    @symbol
    @dataclass(eq=False)
    class P:
        x: int

    @symbol
    @dataclass(eq=False)
    class Q:
        x: int

    ps = [P(0), P(1), P(2)]
    qs = [Q(0), Q(1)]
    expected = srt((a.x, b.x) for a in ps for b in qs if a.x == b.x)

    with symbolic_mode():
        p = let(P, ps)
        q = let(Q, qs)
        query = an(set_of([p, q]), p.x == q.x)
    got = srt((r[p].x, r[q].x) for r in query.evaluate())
    print(f"[{name}] an(set_of([p, q]), p.x == q.x)")
    print(f"   expected rows: {expected}")
    print(f"   actual rows  : {got}")

    with symbolic_mode():
        p2 = let(P, ps)
        q2 = let(Q, qs)
        query2 = an([p2, q2], p2.x == q2.x)
    control = srt((r[p2].x, r[q2].x) for r in query2.evaluate())
    print(f"   control an([p, q], p.x == q.x): {control}")
    report(name, got != expected)


# ----------------------------------------------------------------------------------------------------------------------
def flattened_operand_returns_a_row_twice():
    """
    (borderline) Both variables of the query are selected, the condition compares a flattened attribute with the other
    variable. A collection that lists the same element twice (or two elements that are equal to the same value of the
    other variable) makes the same row come back twice.
    """
    name = "flattened_operand_returns_a_row_twice"

    @symbol
    @dataclass(eq=False)
    class Item:
        name: str

    @symbol
    @dataclass(eq=False)
    class Box:
        name: str
        items: list = field(default_factory=list)

    i1, i2 = Item("i1"), Item("i2")
    boxes = [Box("b1", [i1, i2]), Box("b2", [i2, i2])]
    items = [i1, i2]

    with symbolic_mode():
        b = let(Box, boxes)
        i = let(Item, items)
        query = an(set_of([b, i], flatten(b.items) == i))
    got = srt((r[b].name, r[i].name) for r in query.evaluate())
    expected = srt((x.name, y.name) for x in boxes for y in items if any(e == y for e in x.items))
    print(f"[{name}] set_of([b, i], flatten(b.items) == i), b2.items lists i2 twice")
    print(f"   expected rows (one per satisfying assignment): {expected}")
    print(f"   actual rows                                  : {got}")
    report(name, got != expected)


# ----------------------------------------------------------------------------------------------------------------------
if __name__ == "__main__":
    for observation in (falsy_single_object_domain,
                        subquery_with_predicate_condition_loses_rows,
                        predicate_guard_then_operand,
                        predicate_condition_in_disjunction_and_selected,
                        conditions_beside_a_set_of_are_dropped,
                        flattened_operand_returns_a_row_twice):
        try:
            observation()
        except Exception as exc:  # an observation must not hide the others
            import traceback
            traceback.print_exc()
            report(observation.__name__ + f" (raised {type(exc).__name__})", True)
        print()
    for line in SUMMARY:
        print(line)
