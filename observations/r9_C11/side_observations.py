"""
Side observations for property C11:
"Rule inference builds one instance per satisfying binding, from that binding".

Run with
    PYTHONPATH=/tmp/r9_C11/src /venv/bin/python /tmp/r9_C11/side_observations.py

Every observation is self-contained (own classes, own data), prints what the property demands and what the library
does, and returns True when the property is VIOLATED.
"""
from __future__ import annotations

import traceback
from dataclasses import dataclass, field

from entity_query_language import (entity, let, infer, rule_mode, symbol, flatten, or_)


# ----------------------------------------------------------------------------------------------------------------------
# 1. the inferred type is the type (or a subtype) of a variable that has no explicit domain
# ----------------------------------------------------------------------------------------------------------------------
def obs_inferred_type_is_type_of_domainless_variable() -> bool:
    """
    "For every connection infer the reverse connection": the variable ranges over all known Connections
    (`let(Connection)` without a domain), the rule infers Connections.
    """

    @symbol
    @dataclass(eq=False)
    class Connection:
        parent: str
        child: str

    existing = [Connection('a', 'b'), Connection('b', 'c')]

    with rule_mode():
        c = let(Connection)  # no domain: all instances of the class
        rule = infer(entity(Connection(parent=c.child, child=c.parent), c.parent != c.child))

    expected = sorted((x.child, x.parent) for x in existing if x.parent != x.child)
    print("  expected: 2 new instances, (parent, child) =", expected)
    try:
        got = [(x.parent, x.child) for x in rule.evaluate()]
        print("  actual  :", got)
        violated = sorted(got) != expected
    except Exception as e:
        print("  actual  : raises", repr(e))
        violated = True

    # same thing with a variable of a SUPER class of the inferred type
    @symbol
    @dataclass(eq=False)
    class Body:
        name: str

    @dataclass(eq=False)
    class Container(Body):
        pass

    bodies = [Body('b1'), Container('c1')]
    with rule_mode():
        b = let(Body)
        rule = infer(entity(Container(name=b.name), b.name != ''))
    print("  (superclass variable) expected: 2 new Containers named", sorted(x.name for x in bodies))
    try:
        got = sorted(x.name for x in rule.evaluate())
        print("  (superclass variable) actual  :", got)
        violated = violated or got != sorted(x.name for x in bodies)
    except Exception as e:
        print("  (superclass variable) actual  : raises", repr(e))
        violated = True
    return violated


# ----------------------------------------------------------------------------------------------------------------------
# 2. a flattened field over a list that contains a value twice: the first and the second evaluation disagree
# ----------------------------------------------------------------------------------------------------------------------
def obs_flatten_with_repeated_element_first_vs_later_evaluation() -> bool:
    @symbol
    @dataclass(eq=False)
    class Shelf:
        name: str
        sizes: list = field(default_factory=list)

    @symbol
    @dataclass(eq=False)
    class Slot:
        shelf: Shelf
        size: int

    shelves = [Shelf('s1', [2, 2, 3]), Shelf('s2', [3])]

    with rule_mode():
        s = let(Shelf, shelves)
        size = flatten(s.sizes)
        rule = infer(entity(Slot(shelf=s, size=size), size > 1))

    first = [(x.shelf.name, x.size) for x in rule.evaluate()]
    second = [(x.shelf.name, x.size) for x in rule.evaluate()]
    print("  expected: the same instances (as fields) from every evaluation of the rule over unchanged data; flatten")
    print("            'yields one solution per inner element', i.e. 4: ", [('s1', 2), ('s1', 2), ('s1', 3), ('s2', 3)])
    print("  actual  : 1st evaluation", first)
    print("            2nd evaluation", second)

    # and the number of instances for the very same data depends on the shape of the condition
    with rule_mode():
        s = let(Shelf, shelves)
        size = flatten(s.sizes)
        rule2 = infer(entity(Slot(shelf=s, size=size), or_(size > 2, s.name != '')))
    with_or = [(x.shelf.name, x.size) for x in rule2.evaluate()]
    print("            condition `or_(size > 2, s.name != '')` (true for every binding), 1st evaluation:", with_or)
    return first != second or len(with_or) != len(first)


# ----------------------------------------------------------------------------------------------------------------------
# 3. a field that is a list / tuple of variables
# ----------------------------------------------------------------------------------------------------------------------
def obs_list_of_variables_as_field() -> bool:
    @symbol
    @dataclass(eq=False)
    class Part:
        name: str
        weight: int

    @symbol
    @dataclass(eq=False)
    class Assembly:
        parts: list
        heavier: Part = None

    parts = [Part('x', 1), Part('y', 2), Part('z', 3)]
    with rule_mode():
        a = let(Part, parts)
        b = let(Part, parts)
        rule = infer(entity(Assembly(parts=[a, b], heavier=b), a.weight < b.weight))

    expected = [('x', 'y'), ('x', 'z'), ('y', 'z')]
    print("  expected: 3 instances, parts (by name) =", expected)
    res = list(rule.evaluate())
    got = [tuple(getattr(p, 'name', None) if isinstance(p, Part) else f"<{type(p).__name__} object>"
                 for p in x.parts) for x in res]
    print("  actual  :", len(res), "instances, parts =", got)
    return got != expected


# ----------------------------------------------------------------------------------------------------------------------
# 4. a field whose expression is a comparison
# ----------------------------------------------------------------------------------------------------------------------
def obs_comparison_as_field_value() -> bool:
    @symbol
    @dataclass(eq=False)
    class Box:
        name: str
        size: int

    @symbol
    @dataclass(eq=False)
    class Label:
        box: Box
        is_big: bool

    boxes = [Box('x', 1), Box('y', 2), Box('z', 3)]
    with rule_mode():
        b = let(Box, boxes)
        rule = infer(entity(Label(box=b, is_big=(b.size > 1)), b.size > 0))

    expected = [(x.name, x.size > 1) for x in boxes if x.size > 0]
    print("  expected: one Label per box with size > 0:", expected)
    got = [(x.box.name, x.is_big) for x in rule.evaluate()]
    print("  actual  :", got)
    return got != expected


# ----------------------------------------------------------------------------------------------------------------------
# 5. a field whose expression is a method call that takes another variable as argument
# ----------------------------------------------------------------------------------------------------------------------
def obs_method_call_with_variable_argument_as_field() -> bool:
    @symbol
    @dataclass(eq=False)
    class Point:
        name: str
        x: int

        def distance_to(self, other):
            return abs(self.x - other.x)

    @symbol
    @dataclass(eq=False)
    class Edge:
        start: Point
        end: Point
        length: int

    points = [Point('p', 1), Point('q', 2), Point('r', 4)]
    with rule_mode():
        a = let(Point, points)
        b = let(Point, points)
        rule = infer(entity(Edge(start=a, end=b, length=a.distance_to(b)), a.x < b.x))

    expected = [(p.name, q.name, p.distance_to(q)) for p in points for q in points if p.x < q.x]
    print("  expected:", expected)
    try:
        got = [(e.start.name, e.end.name, e.length) for e in rule.evaluate()]
        print("  actual  :", got)
        return got != expected
    except Exception as e:
        print("  actual  : raises", repr(e))
        return True


# ----------------------------------------------------------------------------------------------------------------------
# 6. a condition on the inferred instance itself: the next evaluation builds nothing and hands back the old instances
# ----------------------------------------------------------------------------------------------------------------------
def obs_condition_on_inferred_instance_second_evaluation_builds_nothing() -> bool:
    built = []

    @symbol
    @dataclass(eq=False)
    class Item:
        name: str
        weight: int

    @symbol
    @dataclass(eq=False)
    class Load:
        first: Item
        second: Item

        def __post_init__(self):
            built.append(self)

        @property
        def total(self):
            return self.first.weight + self.second.weight

    items = [Item('x', 1), Item('y', 2), Item('z', 3)]
    violated = False
    for label, reverse in (("total < 5, a.weight < b.weight", False), ("a.weight < b.weight, total < 5", True)):
        with rule_mode():
            a = let(Item, items)
            b = let(Item, items)
            load = Load(first=a, second=b)
            conditions = [load.total < 5, a.weight < b.weight]
            if reverse:
                conditions.reverse()
            rule = infer(entity(load, *conditions))
        built.clear()
        first = list(rule.evaluate())
        built_first = len(built)
        built.clear()
        second = list(rule.evaluate())
        built_second = len(built)
        same_objects = [x is y for x, y in zip(first, second)]
        print(f"  conditions ({label}):")
        print("    expected: every evaluation yields NEW instances for (x,y), (x,z)")
        print("    actual  : 1st", [(l.first.name, l.second.name) for l in first], "constructor calls", built_first,
              "| 2nd", [(l.first.name, l.second.name) for l in second], "constructor calls", built_second,
              "| 2nd result is the 1st object:", same_objects)
        violated = violated or any(same_objects) or built_second == 0
    return violated


OBSERVATIONS = [
    obs_inferred_type_is_type_of_domainless_variable,
    obs_flatten_with_repeated_element_first_vs_later_evaluation,
    obs_list_of_variables_as_field,
    obs_comparison_as_field_value,
    obs_method_call_with_variable_argument_as_field,
    obs_condition_on_inferred_instance_second_evaluation_builds_nothing,
]

if __name__ == '__main__':
    summary = []
    for observation in OBSERVATIONS:
        print(f"=== {observation.__name__}")
        try:
            violated = observation()
        except Exception:
            traceback.print_exc()
            violated = True
        summary.append((observation.__name__, violated))
    print()
    for name, violated in summary:
        print(f"{'VIOLATED' if violated else 'holds'} {name}")
