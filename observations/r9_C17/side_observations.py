"""
Side observations for property C17:

    concatenate(e) produces exactly one row whose value is the list of all elements of e over all bindings of its
    variables, in domain order and inner order, with multiplicity; membership tests of another variable against it
    (and their negation) select exactly the values that are (are not) in that combined list.

Run with:  PYTHONPATH=/tmp/r9_C17/src /venv/bin/python /tmp/r9_C17/side_observations.py

Every function is self-contained (own classes, own data), prints what the property expects and what the library
does, and returns True when the property is violated.
"""
import sys
from dataclasses import dataclass, field

from entity_query_language import (symbolic_mode, let, concatenate, not_, in_, entity, an, the, set_of, and_, or_,
                                   flatten, for_all, symbol, MultipleSolutionFound)


def _attempt(f):
    try:
        return f()
    except RecursionError as e:  # keep the output short
        return f"RAISED RecursionError: {str(e)[:60]}"
    except Exception as e:
        return f"RAISED {type(e).__name__}: {str(e)[:120]}"


# ----------------------------------------------------------------------------------------------------------------------
# 1. a condition on the variable that is concatenated over: several rows instead of one
# ----------------------------------------------------------------------------------------------------------------------
def condition_on_concatenated_variable_gives_one_row_per_binding():
    @symbol
    @dataclass(eq=False)
    class Box:
        name: str
        items: list = field(default_factory=list)

    boxes = [Box('a', [1, 2]), Box('b', []), Box('c', [2, 3, 0])]
    combined = [x for b in boxes for x in b.items]

    with symbolic_mode():
        b = let(Box, boxes)
        c = concatenate(b.items)
        plain = an(entity(c))
        # the condition holds for EVERY box, so whichever way it is read (concatenate everything / concatenate what
        # satisfies the condition) exactly one row [1, 2, 2, 3, 0] is expected.
        with_condition = an(entity(c, b.name != 'zz'))
        the_one = the(entity(c, b.name != 'zz'))

    r_plain = list(plain.evaluate())
    r_cond = list(with_condition.evaluate())
    r_the = _attempt(the_one.evaluate)
    print("  expected                         : one row,", [combined])
    print("  an(entity(c))                    :", r_plain)
    print("  an(entity(c, b.name != 'zz'))    :", r_cond)
    print("  the(entity(c, b.name != 'zz'))   :", r_the)
    return r_plain == [combined] and (r_cond != [combined] or r_the != combined)


# ----------------------------------------------------------------------------------------------------------------------
# 2. the order in which the concatenation and its variable are SELECTED changes the concatenated value
# ----------------------------------------------------------------------------------------------------------------------
def selection_order_changes_the_concatenated_value():
    @symbol
    @dataclass(eq=False)
    class Box:
        name: str
        items: list = field(default_factory=list)

    boxes = [Box('a', [1, 2]), Box('b', []), Box('c', [2, 3, 0])]
    combined = [x for b in boxes for x in b.items]
    expected = [(bx.name, combined) for bx in boxes]

    with symbolic_mode():
        b = let(Box, boxes)
        c = concatenate(b.items)
        q_cb = an(set_of([c, b]))
    with symbolic_mode():
        b2 = let(Box, boxes)
        c2 = concatenate(b2.items)
        q_bc = an(set_of([b2, c2]))

    r_cb = [(r[b].name, r[c]) for r in q_cb.evaluate()]
    r_bc = [(r[b2].name, r[c2]) for r in q_bc.evaluate()]
    print("  expected (either order) :", expected)
    print("  an(set_of([c, b]))      :", r_cb)
    print("  an(set_of([b, c]))      :", r_bc)
    return r_cb != expected or r_bc != expected


# ----------------------------------------------------------------------------------------------------------------------
# 3. the order of two conjuncts changes what a membership test against the concatenation selects
# ----------------------------------------------------------------------------------------------------------------------
def conjunct_order_changes_membership():
    @symbol
    @dataclass(eq=False)
    class Box:
        name: str
        items: list = field(default_factory=list)

    @symbol
    @dataclass(eq=False)
    class Num:
        v: int

    boxes = [Box('a', [1, 2]), Box('b', []), Box('c', [2, 3, 0])]
    nums = [Num(0), Num(1), Num(2), Num(5)]
    combined = [x for b in boxes for x in b.items]
    # a box named 'b' exists, so the other conjunct holds (for b = box b) for every n.
    expected = [n.v for n in nums if n.v in combined]

    with symbolic_mode():
        b = let(Box, boxes)
        n = let(Num, nums)
        q1 = an(entity(n, in_(n.v, concatenate(b.items)), b.name == 'b'))
    with symbolic_mode():
        b = let(Box, boxes)
        n = let(Num, nums)
        q2 = an(entity(n, b.name == 'b', in_(n.v, concatenate(b.items))))

    r1 = [x.v for x in q1.evaluate()]
    r2 = [x.v for x in q2.evaluate()]
    print("  expected (values of n in", combined, "):", expected)
    print("  entity(n, in_(n.v, concatenate(b.items)), b.name == 'b') :", r1)
    print("  entity(n, b.name == 'b', in_(n.v, concatenate(b.items))) :", r2)
    return sorted(set(r1)) != expected or sorted(set(r2)) != expected


# ----------------------------------------------------------------------------------------------------------------------
# 4. a NEGATED membership test that comes after another condition on the concatenated variable selects values that
#    ARE in the combined list (conjunction and disjunction)
# ----------------------------------------------------------------------------------------------------------------------
def negated_membership_after_a_condition_selects_members():
    @symbol
    @dataclass(eq=False)
    class Box:
        name: str
        items: list = field(default_factory=list)

    @symbol
    @dataclass(eq=False)
    class Num:
        v: int

    boxes = [Box('a', [1, 2]), Box('b', []), Box('c', [2, 0])]
    nums = [Num(0), Num(1), Num(2), Num(5)]
    combined = [x for b in boxes for x in b.items]
    expected = [n.v for n in nums if n.v not in combined]

    with symbolic_mode():
        b = let(Box, boxes)
        n = let(Num, nums)
        q_ref = an(entity(n, not_(in_(n.v, concatenate(b.items)))))
    with symbolic_mode():
        b = let(Box, boxes)
        n = let(Num, nums)
        # holds for every box, changes nothing
        q_and = an(entity(n, b.name != 'zz', not_(in_(n.v, concatenate(b.items)))))
    with symbolic_mode():
        b = let(Box, boxes)
        n = let(Num, nums)
        # holds for no box, changes nothing
        q_or = an(entity(n, or_(b.name == 'zz', not_(in_(n.v, concatenate(b.items))))))

    r_ref = sorted(set(x.v for x in q_ref.evaluate()))
    r_and = sorted(set(x.v for x in q_and.evaluate()))
    r_or = sorted(set(x.v for x in q_or.evaluate()))
    print("  expected (values of n NOT in", combined, ")                  :", expected)
    print("  entity(n, not_(in_(n.v, c)))                                  :", r_ref)
    print("  entity(n, b.name != 'zz', not_(in_(n.v, c)))      (distinct)  :", r_and)
    print("  entity(n, or_(b.name == 'zz', not_(in_(n.v, c)))) (distinct)  :", r_or)
    return r_ref == expected and (r_and != expected or r_or != expected)


# ----------------------------------------------------------------------------------------------------------------------
# 5. for_all over a membership test against a concatenation: the concatenation's variable is taken for a free variable
#    of the condition, bound from its domain, and the membership is then tested box by box
# ----------------------------------------------------------------------------------------------------------------------
def for_all_membership_in_concatenation_is_tested_per_binding():
    @symbol
    @dataclass(eq=False)
    class Box:
        name: str
        items: list = field(default_factory=list)

    @symbol
    @dataclass(eq=False)
    class Shelf:
        name: str
        items: list = field(default_factory=list)

    boxes = [Box('a', [1, 2]), Box('b', [3])]
    shelves = [Shelf('s1', [1, 2, 3]), Shelf('s2', [2, 9])]
    combined = [x for b in boxes for x in b.items]
    expected = [s.name for s in shelves if all(x in combined for x in s.items)]

    with symbolic_mode():
        s = let(Shelf, shelves)
        x = flatten(s.items)
        control = an(entity(s, s.name != 'zz', for_all(x, in_(x, [1, 2, 3]))))
    with symbolic_mode():
        b = let(Box, boxes)
        s = let(Shelf, shelves)
        x = flatten(s.items)
        q = an(entity(s, s.name != 'zz', for_all(x, in_(x, concatenate(b.items)))))

    r_control = [r.name for r in control.evaluate()]
    r = [r.name for r in q.evaluate()]
    print("  expected (shelves all of whose items are in", combined, "):", expected)
    print("  control, for_all(x, in_(x, [1, 2, 3]))                     :", r_control)
    print("  for_all(x, in_(x, concatenate(b.items)))                   :", r)
    return r_control == expected and r != expected


# ----------------------------------------------------------------------------------------------------------------------
# 6. concatenate over a sub-query that selects an expression (attribute / flattened element): selecting the
#    concatenation raises AttributeError
# ----------------------------------------------------------------------------------------------------------------------
def concatenation_of_a_sub_query_that_selects_an_expression_raises():
    @symbol
    @dataclass(eq=False)
    class Box:
        name: str
        items: list = field(default_factory=list)

    @symbol
    @dataclass(eq=False)
    class Num:
        v: int

    boxes = [Box('a', [1, 2]), Box('b', []), Box('c', [2, 0])]
    nums = [Num(0), Num(1), Num(2), Num(5)]
    expected_attr = [x for b in boxes if b.name != 'b' for x in b.items]
    expected_flat = [x for b in boxes for x in b.items if x > 0]

    def q_attr():
        with symbolic_mode():
            b = let(Box, boxes)
            c = concatenate(an(entity(b.items, b.name != 'b')))
            q = an(entity(c))
        return list(q.evaluate())

    def q_flat():
        with symbolic_mode():
            b = let(Box, boxes)
            c = concatenate(an(entity(x := flatten(b.items), x > 0)))
            q = an(entity(c))
        return list(q.evaluate())

    def q_flat_membership_only():
        with symbolic_mode():
            b = let(Box, boxes)
            n = let(Num, nums)
            c = concatenate(an(entity(x := flatten(b.items), x > 0)))
            q = an(entity(n, in_(n.v, c)))
        return [r.v for r in q.evaluate()]

    def q_flat_selected_beside_n():
        with symbolic_mode():
            b = let(Box, boxes)
            n = let(Num, nums)
            c = concatenate(an(entity(x := flatten(b.items), x > 0)))
            q = an(set_of([n, c], in_(n.v, c)))
        return [(r[n].v, r[c]) for r in q.evaluate()]

    r_attr, r_flat = _attempt(q_attr), _attempt(q_flat)
    r_mem, r_sel = _attempt(q_flat_membership_only), _attempt(q_flat_selected_beside_n)
    exp_sel = [(n.v, expected_flat) for n in nums if n.v in expected_flat]
    print("  expected  concatenate(an(entity(b.items, b.name != 'b')))          :", [expected_attr])
    print("  actual                                                              :", r_attr)
    print("  expected  concatenate(an(entity(x := flatten(b.items), x > 0)))    :", [expected_flat])
    print("  actual                                                              :", r_flat)
    print("  (the same concatenation only in a membership test works            :", r_mem, ")")
    print("  expected  set_of([n, c], in_(n.v, c))                               :", exp_sel)
    print("  actual                                                              :", r_sel)
    return r_attr != [expected_attr] or r_flat != [expected_flat] or r_sel != exp_sel


# ----------------------------------------------------------------------------------------------------------------------
# 7. concatenate(<plain nested iterable>), which the signature allows: RecursionError while the query is built
# ----------------------------------------------------------------------------------------------------------------------
def concatenate_of_a_plain_iterable_recurses():
    @symbol
    @dataclass(eq=False)
    class Num:
        v: int

    lists = [[1, 2], [3]]
    nums = [Num(1), Num(5)]

    def control():
        with symbolic_mode():
            n = let(Num, nums)
            q = an(entity(n, in_(n.v, [1, 2, 3])))  # a plain container is fine for in_
        return [r.v for r in q.evaluate()]

    def q_select():
        with symbolic_mode():
            q = an(entity(concatenate(lists)))
        return list(q.evaluate())

    def q_membership():
        with symbolic_mode():
            n = let(Num, nums)
            q = an(entity(n, in_(n.v, concatenate(lists))))
        return [r.v for r in q.evaluate()]

    limit = sys.getrecursionlimit()
    sys.setrecursionlimit(400)  # only to fail fast, the recursion is unbounded
    try:
        r_control, r_sel, r_mem = _attempt(control), _attempt(q_select), _attempt(q_membership)
    finally:
        sys.setrecursionlimit(limit)
    print("  control in_(n.v, [1, 2, 3])                         :", r_control)
    print("  expected an(entity(concatenate([[1, 2], [3]])))     : one row, [[1, 2, 3]] (or at least [[[1, 2], [3]]])")
    print("  actual                                              :", r_sel)
    print("  expected entity(n, in_(n.v, concatenate(lists)))    : [1]")
    print("  actual                                              :", r_mem)
    return isinstance(r_sel, str) or isinstance(r_mem, str)


OBSERVATIONS = [
    condition_on_concatenated_variable_gives_one_row_per_binding,
    selection_order_changes_the_concatenated_value,
    conjunct_order_changes_membership,
    negated_membership_after_a_condition_selects_members,
    for_all_membership_in_concatenation_is_tested_per_binding,
    concatenation_of_a_sub_query_that_selects_an_expression_raises,
    concatenate_of_a_plain_iterable_recurses,
]

if __name__ == '__main__':
    summary = []
    for observation in OBSERVATIONS:
        print(f"--- {observation.__name__}")
        try:
            violated = observation()
        except Exception as e:  # an observation that blows up outside its guarded part is a violation too
            print(f"  RAISED {type(e).__name__}: {str(e)[:150]}")
            violated = True
        summary.append(f"{'VIOLATED' if violated else 'holds'} {observation.__name__}")
    print()
    for line in summary:
        print(line)
