"""
Side observations for property C19 - "Values are not truth: falsy values are handled like any other value".

Run with:  PYTHONPATH=/tmp/r9_C19/src /venv/bin/python /tmp/r9_C19/side_observations.py

Every observation is self-contained (own classes, own data), prints what the property makes one expect and what
the library returns, and ends in a line `VIOLATED <name>` / `holds <name>`.
"""
from dataclasses import dataclass, field
from typing import Any, Optional, List

from entity_query_language import (an, the, entity, set_of, let, and_, or_, not_, in_, contains, flatten, for_all,
                                   symbolic_mode, rule_mode, infer, symbol, predicate, From, Add, refinement)

SUMMARY = []


def report(name, expected, actual, controls=()):
    print(f"--- {name}")
    print(f"    expected by the property : {expected}")
    print(f"    actual                   : {actual}")
    for label, value in controls:
        print(f"    control - {label}: {value}")
    verdict = "holds" if expected == actual else "VIOLATED"
    SUMMARY.append(f"{verdict} {name}")
    print(f"{verdict} {name}")
    print()


def run(query, key):
    try:
        return [key(r) for r in query.evaluate()]
    except Exception as e:  # an exception is a result too
        return f"{type(e).__name__}: {e}"


# ----------------------------------------------------------------------------------------------------------------------
# 1. A @predicate term kept in a Python variable, selected AND standing in a disjunction: rows whose predicate value is
#    falsy are lost (all but those computed before the first result), although the other disjunct holds for them.
# ----------------------------------------------------------------------------------------------------------------------
def obs1_selected_predicate_in_disjunction():
    @symbol
    @dataclass(eq=False)
    class Product:
        name: str
        qty: int = 0
        discontinued: bool = False

    @predicate
    def stock(p):
        return p.qty

    def rows(quantities, shared):
        products = [Product('a', quantities[0]), Product('b', 3, True), Product('c', quantities[1]),
                    Product('d', quantities[2]), Product('e', quantities[3], True)]
        with symbolic_mode():
            p = let(Product, domain=products)
            s = stock(p)
            cond = s if shared else stock(p)
            q = an(set_of([p, s], or_(cond, p.discontinued == False)))
        return run(q, lambda r: (r[p].name, r[s]))

    zeros = (0, 0, 0, 0)
    # plain Python: [(p.name, p.qty) for p in products if p.qty or p.discontinued == False]
    expected = [('a', 0), ('b', 3), ('c', 0), ('d', 0)]
    actual = rows(zeros, shared=True)
    report("obs1_selected_predicate_in_disjunction", expected, actual,
           controls=[("same query, the predicate term written twice (two objects)", rows(zeros, shared=False)),
                     ("same shared term, but all quantities truthy (7,7,7,9)", rows((7, 7, 7, 9), shared=True))])


# ----------------------------------------------------------------------------------------------------------------------
# 1b. same cause, the predicate term is a constructor argument of an inferred instance
# ----------------------------------------------------------------------------------------------------------------------
def obs1b_constructor_argument_predicate_in_disjunction():
    @symbol
    @dataclass(eq=False)
    class Product:
        name: str
        qty: int = 0
        discontinued: bool = False

    @symbol
    @dataclass(eq=False)
    class Row:
        name: str
        stock: Any

    @predicate
    def stock(p):
        return p.qty

    products = [Product('a', 0), Product('b', 3, True), Product('c', 0), Product('d', 0), Product('e', 0, True)]
    with rule_mode():
        p = let(Product, domain=products)
        s = stock(p)
        q = infer(entity(Row(name=p.name, stock=s), or_(s, p.discontinued == False)))
    expected = [('a', 0), ('b', 3), ('c', 0), ('d', 0)]
    actual = run(q, lambda r: (r.name, r.stock))
    report("obs1b_constructor_argument_predicate_in_disjunction", expected, actual)


# ----------------------------------------------------------------------------------------------------------------------
# 2. for_all(x, x): the universal expression is also the condition ("all elements are truthy"). The universal VALUES
#    are filtered by their truthiness, so the falsy elements are never checked and "mixed" containers pass.
# ----------------------------------------------------------------------------------------------------------------------
def obs2_for_all_universal_expression_is_the_condition():
    @symbol
    @dataclass(eq=False)
    class Sensor:
        name: str
        readings: list = field(default_factory=list)
        on: bool = True

    sensors = [Sensor('all_true', [1, 2]), Sensor('mixed_zero', [0, 1]), Sensor('mixed_none', [1, None]),
               Sensor('one', [5])]
    with symbolic_mode():
        s = let(Sensor, domain=sensors)
        r = flatten(s.readings)
        q = an(entity(s, s.on, for_all(r, r)))
    expected = [x.name for x in sensors if x.on and all(x.readings)]
    actual = run(q, lambda x: x.name)

    with symbolic_mode():
        s = let(Sensor, domain=sensors)
        r = flatten(s.readings)
        q2 = an(entity(s, s.on, for_all(r, and_(r != 0, r != None))))
    report("obs2_for_all_universal_expression_is_the_condition", expected, actual,
           controls=[("condition spelled as comparisons: for_all(r, and_(r != 0, r != None))",
                      run(q2, lambda x: x.name))])


def obs2b_for_all_attribute_universal_is_the_condition():
    @symbol
    @dataclass(eq=False)
    class Check:
        name: str
        ok: Any = True

    @symbol
    @dataclass(eq=False)
    class Run:
        id: int

    checks = [Check('a', True), Check('b', 0), Check('c', None), Check('d', True)]
    runs = [Run(1), Run(2)]
    with symbolic_mode():
        r = let(Run, domain=runs)
        c = let(Check, domain=checks)
        ok = c.ok
        q = an(entity(r, r.id > 0, for_all(ok, ok)))
    expected = [x.id for x in runs if x.id > 0 and all(c.ok for c in checks)]  # []
    actual = run(q, lambda x: x.id)
    with symbolic_mode():
        r = let(Run, domain=runs)
        c = let(Check, domain=checks)
        q2 = an(entity(r, r.id > 0, for_all(c.ok, c.ok)))
    report("obs2b_for_all_attribute_universal_is_the_condition", expected, actual,
           controls=[("for_all(c.ok, c.ok) - two attribute objects", run(q2, lambda x: x.id))])


# ----------------------------------------------------------------------------------------------------------------------
# 3. A conclusion whose value is an attribute object that is also a condition beneath a disjunction: for a falsy
#    value the evaluation dies with RuntimeError, for truthy values (or a second attribute object) it works.
# ----------------------------------------------------------------------------------------------------------------------
def obs3_conclusion_value_shared_with_condition():
    @symbol
    @dataclass(eq=False)
    class Node:
        name: str
        level: int = 0
        child: Any = None

    @symbol
    @dataclass(eq=False)
    class Target:
        name: str = ''

    def rows(shared):
        nodes = [Node('n0', 0), Node('n1', 1), Node('n2', 0), Node('n3', 2)]
        nodes[1].child = nodes[0]
        nodes[3].child = nodes[2]
        n = let(Node, domain=nodes)
        with symbolic_mode():
            c = n.child
            t = let(Target)
            q = infer(entity(t, or_(c, n.level == 0)))
        with rule_mode(q):
            Add(t, c if shared else n.child)
        return run(q, lambda x: getattr(x, 'name', x))

    # plain Python: [n.child for n in nodes if n.child or n.level == 0]
    expected = [None, 'n0', None, 'n2']
    report("obs3_conclusion_value_shared_with_condition", expected, rows(shared=True),
           controls=[("Add(t, n.child) with a second attribute object", rows(shared=False))])


# ----------------------------------------------------------------------------------------------------------------------
# 4. A single object given as the domain (`let(T, domain=obj)` / `T(From(obj))`, "a value or a set of values"): when
#    the object is falsy (its class defines __len__ / __bool__), the variable ranges over every instance of the class.
# ----------------------------------------------------------------------------------------------------------------------
def obs4_single_falsy_object_as_domain():
    @symbol
    @dataclass(eq=False)
    class Box:
        name: str
        items: list = field(default_factory=list)
        parent: Any = None

        def __len__(self):
            return len(self.items)

    empty = Box('empty')
    full = Box('full', [1])
    other = Box('other', [2], parent=full)
    inner = Box('inner', [3], parent=empty)

    b = let(Box, domain=empty)
    actual_let = run(an(entity(b)), lambda x: x.name)
    b = let(Box, domain=full)
    control_let = run(an(entity(b)), lambda x: x.name)
    with symbolic_mode():
        c = let(Box, domain=[empty, full, other, inner])
        actual_join = run(an(entity(c, c.parent == Box(From(empty)))), lambda x: x.name)
        c = let(Box, domain=[empty, full, other, inner])
        control_join = run(an(entity(c, c.parent == Box(From(full)))), lambda x: x.name)
    report("obs4_single_falsy_object_as_domain", (['empty'], ['inner']), (actual_let, actual_join),
           controls=[("the same two queries with the truthy box `full`, expected (['full'], ['other'])",
                      (control_let, control_join))])


# ----------------------------------------------------------------------------------------------------------------------
# 5. for_all over the elements of an EMPTY container: plain Python's all(...) is vacuously true, the library drops the
#    row (the emptiness of a value decides about the row). Arguably a for_all matter, listed with low confidence.
# ----------------------------------------------------------------------------------------------------------------------
def obs5_for_all_over_an_empty_container():
    @symbol
    @dataclass(eq=False)
    class Group:
        name: str
        sizes: list = field(default_factory=list)
        active: bool = True

    groups = [Group('g0', [0, 0]), Group('g1', [0, 4]), Group('g2', [])]
    with symbolic_mode():
        g = let(Group, domain=groups)
        s = flatten(g.sizes)
        q = an(entity(g, g.active, for_all(s, s == 0)))
    expected = [x.name for x in groups if x.active and all(s == 0 for s in x.sizes)]
    report("obs5_for_all_over_an_empty_container", expected, run(q, lambda x: x.name))


# ----------------------------------------------------------------------------------------------------------------------
# The other half of the property ("only an expression standing in condition position is interpreted as a boolean"
# - so there it IS): a falsy value in condition position passes as true once the same expression object was used as
# a value before.
# ----------------------------------------------------------------------------------------------------------------------
def obs6_predicate_condition_after_value_use_is_not_read_as_boolean():
    @symbol
    @dataclass(eq=False)
    class Product:
        name: str
        qty: Optional[int] = 0

    @predicate
    def stock(p):
        return p.qty

    def rows(shared):
        products = [Product('a', 0), Product('b', 3), Product('c', None), Product('d', 0)]
        with symbolic_mode():
            p = let(Product, domain=products)
            s = stock(p)
            q = an(entity(p, and_(s != None, s if shared else stock(p))))
        return run(q, lambda x: x.name)

    # plain Python: [p.name for p in products if p.qty != None and p.qty]
    report("obs6_predicate_condition_after_value_use_is_not_read_as_boolean", ['b'], rows(True),
           controls=[("the predicate term written twice", rows(False))])


def obs6b_predicate_condition_before_value_use():
    @symbol
    @dataclass(eq=False)
    class Product:
        name: str
        qty: Optional[int] = 0

    @predicate
    def stock(p):
        return p.qty

    def rows(shared):
        products = [Product('a', 0), Product('b', 3), Product('c', None), Product('d', 0)]
        with symbolic_mode():
            p = let(Product, domain=products)
            s = stock(p)
            q = an(entity(p, and_(s, (s if shared else stock(p)) != 3)))
        return run(q, lambda x: x.name)

    # plain Python: [p.name for p in products if p.qty and p.qty != 3]  ->  []
    report("obs6b_predicate_condition_before_value_use", [], rows(True),
           controls=[("the predicate term written twice", rows(False))])


def obs7_refinement_condition_after_value_use_is_not_read_as_boolean():
    @symbol
    @dataclass(eq=False)
    class Node:
        name: str
        level: int = 0
        child: Any = None

    @symbol
    @dataclass(eq=False)
    class Label:
        text: str
        level: int = 0

    def rows(shared):
        nodes = [Node('n0', 0), Node('n1', 1), Node('n2', 0), Node('n3', 2)]
        nodes[1].child = nodes[0]
        nodes[3].child = nodes[2]
        n = let(Node, domain=nodes)
        with symbolic_mode():
            c = n.child
            lab = let(Label)
            q = infer(entity(lab, c != n))  # the attribute as an operand
        with rule_mode(q):
            Add(lab, Label(text='leaf', level=n.level))
            with refinement(c if shared else n.child):  # the attribute as a condition: "has a child"
                Add(lab, Label(text='parent', level=n.level))
        return run(q, lambda x: (x.text, x.level))

    expected = [('leaf', 0), ('parent', 1), ('leaf', 0), ('parent', 2)]
    report("obs7_refinement_condition_after_value_use_is_not_read_as_boolean", expected, rows(True),
           controls=[("refinement(n.child) with a second attribute object", rows(False))])


if __name__ == '__main__':
    obs1_selected_predicate_in_disjunction()
    obs1b_constructor_argument_predicate_in_disjunction()
    obs2_for_all_universal_expression_is_the_condition()
    obs2b_for_all_attribute_universal_is_the_condition()
    obs3_conclusion_value_shared_with_condition()
    obs4_single_falsy_object_as_domain()
    obs5_for_all_over_an_empty_container()
    obs6_predicate_condition_after_value_use_is_not_read_as_boolean()
    obs6b_predicate_condition_before_value_use()
    obs7_refinement_condition_after_value_use_is_not_read_as_boolean()
    print("=" * 60)
    for line in SUMMARY:
        print(line)
