"""
Side observations for property C10:

    for_all(u, c) over a non-empty domain of u yields exactly those bindings of the other variables for which c is
    true for every value of u, whatever the form of c; combined with other conditions by and_ it filters exactly like
    that universally quantified statement.

Run with:  PYTHONPATH=/tmp/r9_C10/src /venv/bin/python /tmp/r9_C10/side_observations.py

Every function is self-contained (own classes, own data), prints what the property demands and what the library
yields, and returns True when the property is violated.
"""
import logging
from dataclasses import dataclass, field

logging.disable(logging.CRITICAL)


def _show(label, expected, actual):
    flag = "ok  " if expected == actual else "DIFF"
    print(f"    [{flag}] {label}\n           expected: {expected}\n           actual:   {actual}")
    return expected != actual


# ----------------------------------------------------------------------------------------------------------------------
# 1. a flattened element is one of "the other variables" of the condition, for_all does not filter it
# ----------------------------------------------------------------------------------------------------------------------
def obs1_flattened_element_in_condition():
    """
    e = flatten(x.items) makes one row per element (SQL UNNEST). Without for_all, `e != 1` filters those rows.
    for_all(u, e != u.a) must keep the rows (x, e) whose e differs from EVERY u.a. It keeps every element of every x
    that has some fitting element per value of u - even when u has a single value, where for_all(u, c) is just c.
    """
    from entity_query_language import symbolic_mode, let, entity, an, set_of, for_all, and_, flatten
    from entity_query_language.predicate import symbol

    @symbol
    @dataclass(eq=False)
    class Limit:
        a: int

    @symbol
    @dataclass(eq=False)
    class Box:
        name: str
        items: list = field(default_factory=list)

    boxes = [Box('A', [1, 2]), Box('B', [0, 3]), Box('C', [5])]
    one_limit = [Limit(1)]
    two_limits = [Limit(1), Limit(2)]
    violated = False

    def rows(limits):
        return sorted((b.name, e) for b in boxes for e in b.items if all(e != l.a for l in limits))

    # (a) baseline without for_all: filters the rows as expected
    with symbolic_mode():
        x = let(Box, boxes); e = flatten(x.items)
        q = an(set_of([x, e], e != 1))
    got = sorted((r[x].name, r[e]) for r in q.evaluate())
    _show("baseline  set_of([x, e], e != 1)   (no for_all)", rows(one_limit), got)

    # (b) the same statement through for_all over ONE universal value
    with symbolic_mode():
        u = let(Limit, one_limit); x = let(Box, boxes); e = flatten(x.items)
        q = an(set_of([x, e], for_all(u, e != u.a)))
    got = sorted((r[x].name, r[e]) for r in q.evaluate())
    violated |= _show("set_of([x, e], for_all(u, e != u.a)), u in {1}", rows(one_limit), got)

    # (c) two universal values
    with symbolic_mode():
        u = let(Limit, two_limits); x = let(Box, boxes); e = flatten(x.items)
        q = an(set_of([x, e], for_all(u, e != u.a)))
    got = sorted((r[x].name, r[e]) for r in q.evaluate())
    violated |= _show("set_of([x, e], for_all(u, e != u.a)), u in {1, 2}", rows(two_limits), got)

    # (d) only the element selected
    with symbolic_mode():
        u = let(Limit, two_limits); x = let(Box, boxes); e = flatten(x.items)
        q = an(entity(e, for_all(u, e != u.a)))
    got = sorted(q.evaluate())
    violated |= _show("entity(e, for_all(u, e != u.a)), u in {1, 2}", sorted(e_ for _, e_ in rows(two_limits)), got)

    # (e) only the parent selected: box A = [1, 2] has no element that differs from both 1 and 2, yet it is kept
    #     (for every u SOME element fits: forall-exists instead of the row-wise exists-forall)
    with symbolic_mode():
        u = let(Limit, two_limits); x = let(Box, boxes); e = flatten(x.items)
        q = an(entity(x, for_all(u, e != u.a)))
    got = sorted(r.name for r in q.evaluate())
    violated |= _show("entity(x, for_all(u, e != u.a)), u in {1, 2}", sorted({n for n, _ in rows(two_limits)}), got)

    # (f) and_ is not commutative here: with the element bound by a conjunct in front the result is right,
    #     with the same conjunct behind it is wrong
    with symbolic_mode():
        u = let(Limit, two_limits); x = let(Box, boxes); e = flatten(x.items)
        q = an(set_of([x, e], and_(e >= 0, for_all(u, e != u.a))))
    got = sorted((r[x].name, r[e]) for r in q.evaluate())
    _show("and_(e >= 0, for_all(u, e != u.a))   (element bound first: fine)", rows(two_limits), got)
    with symbolic_mode():
        u = let(Limit, two_limits); x = let(Box, boxes); e = flatten(x.items)
        q = an(set_of([x, e], and_(for_all(u, e != u.a), e >= 0)))
    got = sorted((r[x].name, r[e]) for r in q.evaluate())
    violated |= _show("and_(for_all(u, e != u.a), e >= 0)", rows(two_limits), got)
    return violated


# ----------------------------------------------------------------------------------------------------------------------
# 2. one for_all object used in two places of one condition: bindings come out twice
# ----------------------------------------------------------------------------------------------------------------------
def obs2_same_for_all_object_twice():
    """
    fa = for_all(u, x.a >= u.a) kept in a Python variable and mentioned twice in one condition. With two separately
    built (identical) for_all expressions every binding is yielded once, with the shared object some are yielded twice.
    """
    from entity_query_language import symbolic_mode, let, entity, an, set_of, for_all, and_, or_
    from entity_query_language.predicate import symbol

    @symbol
    @dataclass(eq=False)
    class U:
        a: int

    @symbol
    @dataclass(eq=False)
    class X:
        a: int

    @symbol
    @dataclass(eq=False)
    class Y:
        a: int

    us = [U(1), U(2)]
    xs = [X(0), X(2), X(3), X(5)]
    ys = [Y(0), Y(1), Y(5)]
    violated = False

    def fa_py(x_):
        return all(x_.a >= u_.a for u_ in us)

    # (a) minimal, one free variable:  (fa or x.a < 5) and fa
    expected = sorted(x_.a for x_ in xs if (fa_py(x_) or x_.a < 5) and fa_py(x_))
    with symbolic_mode():
        u = let(U, us); x = let(X, xs)
        q = an(entity(x, and_(or_(for_all(u, x.a >= u.a), x.a < 5), for_all(u, x.a >= u.a))))
    _show("two for_all objects:  and_(or_(fa1, x.a < 5), fa2)", expected, sorted(r.a for r in q.evaluate()))
    with symbolic_mode():
        u = let(U, us); x = let(X, xs)
        fa = for_all(u, x.a >= u.a)
        q = an(entity(x, and_(or_(fa, x.a < 5), fa)))
    violated |= _show("ONE for_all object:   and_(or_(fa, x.a < 5), fa)", expected, sorted(r.a for r in q.evaluate()))

    # (b) a more natural shape, two free variables:  (fa or y.a > 0) and (fa or y.a == 0)   ==  fa
    expected = sorted((x_.a, y_.a) for x_ in xs for y_ in ys
                      if (fa_py(x_) or y_.a > 0) and (fa_py(x_) or y_.a == 0))
    with symbolic_mode():
        u = let(U, us); x = let(X, xs); y = let(Y, ys)
        fa = for_all(u, x.a >= u.a)
        q = an(set_of([x, y], and_(or_(fa, y.a > 0), or_(fa, y.a == 0))))
    got = sorted((r[x].a, r[y].a) for r in q.evaluate())
    violated |= _show("ONE for_all object:   and_(or_(fa, y.a > 0), or_(fa, y.a == 0))", expected, got)
    # the same with a comparison object in place of the for_all object is fine
    with symbolic_mode():
        x = let(X, xs); y = let(Y, ys)
        c = x.a >= 2
        q = an(set_of([x, y], and_(or_(c, y.a > 0), or_(c, y.a == 0))))
    got = sorted((r[x].a, r[y].a) for r in q.evaluate())
    _show("one COMPARISON object in the same places (control)", expected, got)
    return violated


# ----------------------------------------------------------------------------------------------------------------------
# 3. (same root cause as the known "for_all(flatten(b.items), c) as the only condition on b"; listed because the
#     property speaks about and_):  a for_all over a per-binding domain depends on the ORDER of the and_ operands
# ----------------------------------------------------------------------------------------------------------------------
def obs3_and_order_with_per_binding_domain():
    """
    b is constrained by another conjunct as well. With that conjunct in front of the for_all the answer is right, with
    the same conjunct behind it (or passed as a later property of entity(...)) nothing is yielded. The same happens for
    a universal domain that is a correlated sub-query instead of a flatten.
    """
    from entity_query_language import symbolic_mode, let, entity, an, for_all, and_, flatten, contains
    from entity_query_language.predicate import symbol

    @symbol
    @dataclass(eq=False)
    class Bag:
        name: str
        kind: str
        items: list

    @symbol
    @dataclass(eq=False)
    class U:
        a: int

    bags = [Bag('b1', 'p', [1, 2]), Bag('b2', 'p', [0, 3]), Bag('b3', 'q', [5]), Bag('b4', 'q', [0])]
    expected = sorted(b_.name for b_ in bags if b_.kind == 'p' and all(e_ > 0 for e_ in b_.items))
    violated = False

    with symbolic_mode():
        b = let(Bag, bags); e = flatten(b.items)
        q = an(entity(b, and_(b.kind == 'p', for_all(e, e > 0))))
    _show("and_(b.kind == 'p', for_all(flatten(b.items), e > 0))", expected, sorted(r.name for r in q.evaluate()))
    with symbolic_mode():
        b = let(Bag, bags); e = flatten(b.items)
        q = an(entity(b, and_(for_all(e, e > 0), b.kind == 'p')))
    violated |= _show("and_(for_all(flatten(b.items), e > 0), b.kind == 'p')", expected,
                      sorted(r.name for r in q.evaluate()))
    with symbolic_mode():
        b = let(Bag, bags); e = flatten(b.items)
        q = an(entity(b, for_all(e, e > 0), b.kind == 'p'))
    violated |= _show("entity(b, for_all(flatten(b.items), e > 0), b.kind == 'p')", expected,
                      sorted(r.name for r in q.evaluate()))

    # correlated sub-query as the universal domain: "every u below the size of the shelf is among its items"
    @symbol
    @dataclass(eq=False)
    class Shelf:
        name: str
        size: int
        items: list

    us = [U(1), U(2), U(5)]
    shelves = [Shelf('c1', 2, [1, 2, 3, 4]), Shelf('c2', 3, []), Shelf('c3', 6, [4, 1, 2, 5]), Shelf('c4', 7, [0])]
    # (every shelf has at least one u below its size: no empty universal domain involved)
    expected = sorted(s_.name for s_ in shelves if all(u_.a in s_.items for u_ in us if u_.a < s_.size))
    with symbolic_mode():
        u = let(U, us); s = let(Shelf, shelves)
        below = an(entity(u, u.a < s.size))
        q = an(entity(s, and_(s.size > 0, for_all(below, contains(s.items, u.a)))))
    _show("and_(s.size > 0, for_all(an(entity(u, u.a < s.size)), contains(s.items, u.a)))", expected,
          sorted(r.name for r in q.evaluate()))
    with symbolic_mode():
        u = let(U, us); s = let(Shelf, shelves)
        below = an(entity(u, u.a < s.size))
        q = an(entity(s, and_(for_all(below, contains(s.items, u.a)), s.size > 0)))
    violated |= _show("and_(for_all(an(entity(u, u.a < s.size)), contains(s.items, u.a)), s.size > 0)", expected,
                      sorted(r.name for r in q.evaluate()))
    return violated


if __name__ == '__main__':
    observations = [
        ("obs1_flattened_element_in_condition", obs1_flattened_element_in_condition),
        ("obs2_same_for_all_object_twice", obs2_same_for_all_object_twice),
        ("obs3_and_order_with_per_binding_domain", obs3_and_order_with_per_binding_domain),
    ]
    summary = []
    for name, function in observations:
        print(f"=== {name}")
        try:
            violated = function()
        except Exception as exception:  # an exception where a result is due is a violation as well
            import traceback
            traceback.print_exc()
            print(f"    raised {exception!r}")
            violated = True
        summary.append(("VIOLATED" if violated else "holds") + " " + name)
        print()
    for line in summary:
        print(line)
