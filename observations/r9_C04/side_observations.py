"""
Side observations for property C04: "a query's answer does not depend on what was evaluated before it".

Run with
    PYTHONPATH=/tmp/r9_C04/src /venv/bin/python /tmp/r9_C04/side_observations.py

Every function is self-contained (own classes, own data), prints what the property expects and what the library
does, and returns True when the property is violated. Only the public API is used; the library source is untouched.
"""
import itertools
import logging
from collections import Counter
from dataclasses import dataclass, field
from typing import List, Optional

from entity_query_language import (an, a, the, entity, set_of, let, and_, or_, flatten, infer, symbolic_mode,
                                   rule_mode, symbol, predicate, From, Add, refinement, alternative,
                                   MultipleSolutionFound)

logging.getLogger("eql").setLevel(logging.ERROR)


def outcome(thunk):
    """The value of thunk(), or the name of the exception it raised."""
    try:
        return thunk()
    except Exception as e:  # noqa
        return f"raises {type(e).__name__}"


# ----------------------------------------------------------------------------------------------------------------------
def rule_mode_query_flags_its_variable_for_good():
    """
    Evaluating a query that was BUILT inside `with rule_mode():` permanently marks its selected variable as
    "to be inferred". Every other query that shares the variable answers differently from then on.
    """

    @symbol
    @dataclass(eq=False)
    class Person:
        name: str
        age: int

    people = [Person('ann', 10), Person('bob', 20), Person('cy', 30)]

    def build():
        with rule_mode():
            x = let(Person, people)
            q_rule_mode = an(entity(x, x.age > 15))  # an ordinary query, written inside a rule_mode block
        with symbolic_mode():
            q = an(entity(x, x.age > 0))  # shares x
        return q_rule_mode, q

    _, q = build()
    fresh = [p.name for p in q.evaluate()]
    q_rule_mode, q = build()
    list(q_rule_mode.evaluate())  # <- the only difference
    after = [p.name for p in q.evaluate()]
    print("  q alone                          :", fresh)
    print("  q after the other query was run  :", after, "(expected the same)")

    # the same effect in the style of the documentation (doc/example_with_predicate_style_query.md): a sub-term of a
    # rule is looked at on its own before the rule is put together.
    @symbol
    @dataclass(eq=False)
    class Body:
        name: str

    @dataclass(eq=False)
    class Handle(Body):
        pass

    @dataclass(eq=False)
    class Container(Body):
        pass

    @symbol
    @dataclass(eq=False)
    class Fixed:
        parent: Body
        child: Body

    @symbol
    @dataclass(eq=False)
    class Drawer:
        handle: Body
        container: Body

    h1, h2, c1, c2 = Handle('h1'), Handle('h2'), Container('c1'), Container('c2')
    bodies = [h1, h2, c1, c2]
    connections = [Fixed(c1, h1), Fixed(c2, h2)]

    def build_rule(look_at_sub_term_first):
        with rule_mode():
            handle = Handle(From(bodies))
            container = Container(From(bodies))
            fixed = an(entity(Fixed(From(connections), parent=container, child=handle)))
            if look_at_sub_term_first:
                list(fixed.evaluate())
            return an(entity(Drawer(handle=handle, container=container), fixed))

    fresh_rule = sorted((d.handle.name, d.container.name) for d in build_rule(False).evaluate())
    after_rule = sorted((d.handle.name, d.container.name) for d in build_rule(True).evaluate())
    print("  rule alone                       :", fresh_rule)
    print("  rule after its sub-term was run  :", after_rule, "(expected the same)")
    return fresh != after or fresh_rule != after_rule


# ----------------------------------------------------------------------------------------------------------------------
def open_result_iterator_leaves_its_conclusion_behind():
    """
    A result iterator of a rule tree that is given up but still open (not closed, not yet collected) leaves the
    conclusion it selected for its last result on the tree; the next evaluation applies it to its first match.
    """

    @symbol
    @dataclass(eq=False)
    class Person:
        name: str
        age: int

    @symbol
    @dataclass(eq=False)
    class Ticket:
        holder: Person
        kind: str

    people = [Person('kid', 5), Person('bob', 20), Person('cy', 30)]

    def build():
        with symbolic_mode():
            x = let(Person, people)
            t = let(Ticket)
            q = infer(entity(t, x.age > 0))
        with rule_mode(q):
            Add(t, Ticket(holder=x, kind='regular'))
            with refinement(x.age < 10):  # exception: small children get no ticket at all
                pass
        return q

    def rows(results):
        return [(r.kind, r.holder.name) for r in results]

    fresh = rows(build().evaluate())
    q = build()
    it = q.evaluate()
    first = rows([next(it)])  # looked at one result, the iterator stays around
    while_open = rows(q.evaluate())
    again = rows(q.evaluate())
    it.close()
    print("  fresh evaluation                           :", fresh)
    print("  an earlier iterator stopped after", first)
    print("  evaluation while that iterator is open     :", while_open, "(expected as fresh)")
    print("  the evaluation after that                  :", again)
    return while_open != fresh


# ----------------------------------------------------------------------------------------------------------------------
def rule_with_disjunction_loses_conclusions_when_evaluated_again():
    """
    A rule whose condition is a disjunction, with one refinement: the second and every later evaluation of the very
    same query produce fewer rows, and whole conclusions disappear.
    """

    @symbol
    @dataclass(eq=False)
    class P:
        name: str
        val: int
        ref: Optional['P'] = None

    @symbol
    @dataclass(eq=False)
    class V:
        p: P
        kind: str

    pa, pb, pc = P('a', 0), P('b', 1), P('c', 2)
    pb.ref = pc
    ps = [pa, pb, pc]

    with symbolic_mode():
        x0, x1, x2 = let(P, ps), let(P, ps), let(P, ps)
        v = let(V)
        q = infer(entity(v, or_(x1.ref == x0, x2.val >= 0)))
    with rule_mode(q):
        Add(v, V(p=x0, kind='plain'))
        with refinement(x1.ref == x2):
            Add(v, V(p=x0, kind='linked'))

    runs = [Counter((r.kind, r.p.name) for r in q.evaluate()) for _ in range(3)]
    for i, run in enumerate(runs):
        print(f"  evaluation {i + 1}: {sum(run.values()):2d} rows, distinct:", sorted(run))
    print("  (expected: every evaluation like the first)")
    return set(runs[0]) != set(runs[1]) or runs[0] != runs[1]


# ----------------------------------------------------------------------------------------------------------------------
def rule_with_alternative_and_exception_gains_a_conclusion_when_evaluated_again():
    """
    Rule tree: refinement, an alternative to it, and an exception to the alternative (a refinement that concludes
    nothing) whose condition is a disjunction. The first evaluation honours the exception, later ones do not.
    """

    @symbol
    @dataclass(eq=False)
    class P:
        name: str
        val: int
        ref: Optional['P'] = None

    @symbol
    @dataclass(eq=False)
    class V:
        p: P
        kind: str

    b0, c1, c2 = P('b0', 2), P('c1', 3), P('c2', 2)
    b0.ref = b0
    c1.ref = c2
    ps = [b0, c1, c2]

    with symbolic_mode():
        x0, x2 = let(P, ps), let(P, ps)
        v = let(V)
        q = infer(entity(v, x2.ref != None))  # noqa: E711
    with rule_mode(q):
        Add(v, V(p=x2, kind='k1'))
        with refinement(x2.ref == x0):
            Add(v, V(p=x0, kind='k2'))
            with alternative(x2.val != 1):
                Add(v, V(p=x0, kind='k3'))
                with refinement(or_(x2.val <= 1, x2.val <= x0.val)):
                    pass

    expected = set()
    for p2 in ps:
        if p2.ref is None:
            continue
        for p0 in ps:
            if p2.ref is p0:
                expected.add(('k2', p0.name))
            elif p2.val != 1 and not (p2.val <= 1 or p2.val <= p0.val):
                expected.add(('k3', p0.name))
    runs = [sorted((r.kind, r.p.name) for r in q.evaluate()) for _ in range(3)]
    print("  plain Python  :", sorted(expected))
    for i, run in enumerate(runs):
        print(f"  evaluation {i + 1}  :", run)
    print("  (expected: every evaluation like the first)")
    return runs[0] != runs[1]


# ----------------------------------------------------------------------------------------------------------------------
def computed_values_get_filed_twice_after_an_abandoned_evaluation():
    """
    A comparison on the output of a @predicate function that returns a number (any value that is a new Python object on
    every call): after one evaluation that was given up after its first result, the next evaluation is right and ALL
    evaluations after that return the first result twice. the(...) over the same condition starts to raise.
    """

    @symbol
    @dataclass(eq=False)
    class City:
        name: str
        x: float
        y: float

    @predicate
    def distance(c1, c2):
        return ((c1.x - c2.x) ** 2 + (c1.y - c2.y) ** 2) ** 0.5

    cities = [City('A', 0, 0), City('B', 3, 4), City('C', 6, 8), City('D', 30, 40)]

    def build():
        with symbolic_mode():
            c1, c2 = let(City, cities), let(City, cities)
            return an(set_of([c1, c2], distance(c1, c2) > 20)), c1, c2

    def rows(q, c1, c2, k=None):
        return [(r[c1].name, r[c2].name) for r in itertools.islice(q.evaluate(), k)]

    q, c1, c2 = build()
    fresh = rows(q, c1, c2)
    q, c1, c2 = build()
    gave_up = rows(q, c1, c2, 1)  # "give me one example"
    second = rows(q, c1, c2)
    third = rows(q, c1, c2)
    print("  fresh evaluation                :", fresh)
    print("  one result taken, then given up :", gave_up)
    print("  next evaluation                 :", second)
    print("  the one after that              :", third, "(expected as fresh)")

    def build2():
        with symbolic_mode():
            c1, c2 = let(City, cities), let(City, cities)
            far = distance(c1, c2) > 49  # condition object used by two queries
            return an(entity(c1, far, c1.x < c2.x)), the(entity(c1, far, c1.x < c2.x))

    _, q_the = build2()
    fresh_the = [outcome(lambda: q_the.evaluate().name) for _ in range(3)]
    q_an, q_the = build2()
    next(iter(q_an.evaluate()))
    after_the = [outcome(lambda: q_the.evaluate().name) for _ in range(3)]
    print("  the(...) three times, fresh                         :", fresh_the)
    print("  the(...) three times, after an(...) gave one result :", after_the, "(expected as fresh)")

    # the same with a flattened collection that is computed on access (a property building value objects)
    @dataclass(frozen=True)
    class Point:
        x: int
        y: int

    @symbol
    @dataclass(eq=False)
    class Rect:
        name: str
        x: int
        y: int
        w: int
        h: int

        @property
        def corners(self):
            return [Point(self.x, self.y), Point(self.x + self.w, self.y), Point(self.x, self.y + self.h),
                    Point(self.x + self.w, self.y + self.h)]

    rects = [Rect('r1', 0, 0, 2, 2), Rect('r2', 2, 2, 1, 1)]
    with symbolic_mode():
        r = let(Rect, rects)
        c = flatten(r.corners)
        q3 = an(set_of([r, c], c.x >= 2))

    def rows3(k=None):
        return [(s[r].name, (s[c].x, s[c].y)) for s in itertools.islice(q3.evaluate(), k)]

    rows3(2)
    right = rows3()
    wrong = rows3()
    print("  flatten(r.corners): evaluation after giving up :", len(right), "rows")
    print("  flatten(r.corners): the one after that         :", len(wrong), "rows", "(expected the same)")
    return third != fresh or after_the != fresh_the or len(right) != len(wrong)


# ----------------------------------------------------------------------------------------------------------------------
def flattened_collection_that_lists_an_object_twice():
    """
    The property's clause about a domain that lists an object twice, for a flattened collection attribute: the first
    evaluation yields a row per listing, later evaluations one row per object. With a condition object shared by an
    an(...) and a the(...) query, the(...) raises or returns depending on whether the an(...) query ran before.
    """

    @symbol
    @dataclass(eq=False)
    class Item:
        name: str
        val: int

    @symbol
    @dataclass(eq=False)
    class Box:
        label: str
        items: List[Item] = field(default_factory=list)

    i1, i2, i3 = Item('i1', 1), Item('i2', 2), Item('i3', 3)
    boxes = [Box('A', [i1, i1, i2]), Box('B', [i2, i3, i2])]

    with symbolic_mode():
        b = let(Box, boxes)
        f = flatten(b.items)
        q = an(set_of([b, f], f.val >= 1))
    runs = [[(r[b].label, r[f].name) for r in q.evaluate()] for _ in range(3)]
    for i, run in enumerate(runs):
        print(f"  evaluation {i + 1}:", run)
    print("  (expected: every evaluation like the first)")

    def build():
        with symbolic_mode():
            b = let(Box, boxes)
            f = flatten(b.items)
            is_one = (f.val == 1)
            return an(entity(f, is_one)), the(entity(f, is_one))

    _, q_the = build()
    fresh = outcome(lambda: q_the.evaluate().name)
    q_an, q_the = build()
    list(q_an.evaluate())
    after = outcome(lambda: q_the.evaluate().name)
    print("  the(entity(f, f.val == 1)) alone                :", fresh)
    print("  ... after an(...) over the same condition ran   :", after, "(expected the same)")
    return runs[0] != runs[1] or fresh != after


# ----------------------------------------------------------------------------------------------------------------------
def rule_mode_term_without_domain_raises_only_the_first_time():
    """
    In rule mode, a term without a domain, `a(Person(age=20))`, means "an existing Person whose age is 20". As the
    whole query it raises an internal AttributeError on the first evaluation and answers on every later one.
    """

    @symbol
    @dataclass(eq=False)
    class Person:
        name: str
        age: int

    Person('ann', 10), Person('bob', 20), Person('cy', 20)
    with rule_mode():
        q = a(Person(age=20))
    runs = [outcome(lambda: sorted(p.name for p in q.evaluate())) for _ in range(3)]
    for i, run in enumerate(runs):
        print(f"  evaluation {i + 1}:", run)
    print("  (expected: the same outcome every time)")
    return not (runs[0] == runs[1] == runs[2])


OBSERVATIONS = [
    # (first on purpose: whether its first evaluation raises depends on the numbering of the nodes in the library's global
    # expression graph, i.e. on how many expressions the process has built before, see NOTES.md)
    rule_mode_term_without_domain_raises_only_the_first_time,
    rule_mode_query_flags_its_variable_for_good,
    open_result_iterator_leaves_its_conclusion_behind,
    rule_with_disjunction_loses_conclusions_when_evaluated_again,
    rule_with_alternative_and_exception_gains_a_conclusion_when_evaluated_again,
    computed_values_get_filed_twice_after_an_abandoned_evaluation,
    flattened_collection_that_lists_an_object_twice,
]

if __name__ == '__main__':
    verdicts = []
    for observation in OBSERVATIONS:
        print(f"== {observation.__name__}")
        try:
            violated = observation()
        except Exception as e:  # noqa
            print("  observation itself failed:", type(e).__name__, e)
            violated = None
        verdicts.append((observation.__name__, violated))
        print()
    for name, violated in verdicts:
        print(("VIOLATED " if violated else "holds " if violated is False else "ERROR ") + name)
