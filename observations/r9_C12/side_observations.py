"""
Side observations for property C12 (a rule tree selects, per match, the conclusion ripple-down rules prescribe).

Run:  PYTHONPATH=/tmp/r9_C12/src /venv/bin/python /tmp/r9_C12/side_observations.py

Every function is self-contained (own classes, own data), prints what the property prescribes (computed in plain
Python) and what the library returns, and returns True when the property is violated.
"""
import faulthandler
from dataclasses import dataclass, field
from typing import List

faulthandler.dump_traceback_later(55, exit=True)  # never hang the harness

from entity_query_language import (entity, an, let, and_, or_, symbolic_mode, symbol, refinement, alternative, Add,
                                   rule_mode, infer, HasType, From, flatten, set_of)


def _report(title, expected, actual):
    expected, actual = sorted(expected), sorted(actual)
    print(f"  {title}")
    print(f"    expected by the property: {expected}")
    print(f"    actual                  : {actual}")
    return expected != actual


# ----------------------------------------------------------------------------------------------------------------------
# 1. An alternative fires beside the refinement it is the alternative OF, when that refinement ranges over a further
#    variable (the world of doc/example_with_rule_tree.md, the two specialisations written most-specific first).
# ----------------------------------------------------------------------------------------------------------------------
def alternative_fires_beside_fired_refinement_join():
    @symbol
    @dataclass
    class Body:
        name: str
        size: int = 1

    @dataclass
    class Container(Body):
        ...

    @dataclass
    class Handle(Body):
        ...

    @symbol
    @dataclass
    class Connection:
        parent: Body
        child: Body

    @dataclass
    class FixedConnection(Connection):
        ...

    @dataclass
    class RevoluteConnection(Connection):
        ...

    @symbol
    @dataclass
    class View:
        ...

    @dataclass
    class Drawer(View):
        handle: Body
        container: Body

    @dataclass
    class Door(View):
        handle: Body
        body: Body

    @dataclass
    class Wardrobe(View):
        handle: Body
        body: Body
        container: Body

    container1, container2 = Container("Container1"), Container("Container2")
    body3, other_body = Body("Body3", size=2), Body("OtherBody")
    handle1, handle3 = Handle("Handle1"), Handle("Handle3")
    fixed_1 = FixedConnection(container1, handle1)
    fixed_3 = FixedConnection(body3, handle3)
    revolute_1 = RevoluteConnection(container2, body3)  # Body3 hangs on a hinge
    revolute_2 = RevoluteConnection(container1, other_body)  # a hinge that has nothing to do with Body3

    def classify(connections):
        with symbolic_mode():
            fixed_connection = let(type_=FixedConnection, domain=connections)
            revolute_connection = let(type_=RevoluteConnection, domain=connections)
            views = let(type_=View)
            handle = fixed_connection.child
            body = fixed_connection.parent
            container = revolute_connection.parent
            query = infer(entity(views, HasType(fixed_connection.child, Handle)))
        with rule_mode(query):
            Add(views, Drawer(handle=handle, container=body))
            # exception: a body that hangs on a hinge makes a wardrobe ...
            with refinement(body == revolute_connection.child):
                Add(views, Wardrobe(handle=handle, body=body, container=container))
                # ... otherwise (only when that did not fire) a big body makes a door.
                with alternative(body.size > 1):
                    Add(views, Door(handle=handle, body=body))
        return [(type(v).__name__, v.handle.name) for v in query.evaluate()]

    def plain(connections):
        out = []
        fixed = [c for c in connections if isinstance(c, FixedConnection)]
        revolute = [c for c in connections if isinstance(c, RevoluteConnection)]
        for f in fixed:
            if not isinstance(f.child, Handle):
                continue
            hinges = [r for r in revolute if r.child is f.parent]
            if hinges:
                out += [("Wardrobe", f.child.name) for _ in hinges]
            elif f.parent.size > 1:
                out.append(("Door", f.child.name))
            else:
                out.append(("Drawer", f.child.name))
        return out

    one_hinge = [fixed_1, fixed_3, revolute_1]
    two_hinges = [fixed_1, fixed_3, revolute_1, revolute_2]
    v1 = _report("world with the one hinge Body3 hangs on", plain(one_hinge), classify(one_hinge))
    v2 = _report("same world plus an unrelated hinge (Handle3 must stay a Wardrobe only)",
                 plain(two_hinges), classify(two_hinges))
    return v1 or v2


# ----------------------------------------------------------------------------------------------------------------------
# 2. The same with the refinement spelled as a sub-query ("there is a part of it"), in predicate form, and with flatten.
# ----------------------------------------------------------------------------------------------------------------------
def alternative_fires_beside_fired_refinement_other_spellings():
    @symbol
    @dataclass
    class Item:
        name: str
        b: int
        kids: List[int] = field(default_factory=list)

    @symbol
    @dataclass
    class Part:
        name: str
        owner: str

    @symbol
    @dataclass
    class Tagged:
        item: Item
        tag: str

    items = [Item("x", 0, [1, 5]), Item("y", 1, [7]), Item("z", 1, [1]), Item("w", 0, [0])]
    parts = [Part("p1", "x"), Part("p2", "x"), Part("p3", "y"), Part("p4", "nobody")]

    def run(make_refinement_condition):
        with symbolic_mode():
            it = let(Item, domain=items)
            pt = let(Part, domain=parts)
            lab = let(Tagged)
            q = infer(entity(lab, it.b >= 0))
            cond = make_refinement_condition(it, pt)
        with rule_mode(q):
            Add(lab, Tagged(item=it, tag='base'))
            with refinement(cond):
                Add(lab, Tagged(item=it, tag='special'))
                with alternative(it.b == 0):
                    Add(lab, Tagged(item=it, tag='b0'))
        return sorted(set((r.item.name, r.tag) for r in q.evaluate()))

    def plain(special):
        return [(x.name, 'special' if special(x) else ('b0' if x.b == 0 else 'base')) for x in items]

    has_part = lambda x: any(p.owner == x.name for p in parts)
    big_kid = lambda x: any(k > 1 for k in x.kids)
    violated = False
    violated |= _report("refinement(an(entity(pt, pt.owner == it.name)))  [x has parts p1, p2 -> 'special' only]",
                        plain(has_part), run(lambda it, pt: an(entity(pt, pt.owner == it.name))))
    violated |= _report("refinement(Part(From(parts), owner=it.name))      [predicate form]",
                        plain(has_part), run(lambda it, pt: Part(From(parts), owner=it.name)))
    violated |= _report("refinement(flatten(it.kids) > 1)                  [x has kids 1 and 5 -> 'special' only]",
                        plain(big_kid), run(lambda it, pt: flatten(it.kids) > 1))
    return violated


# ----------------------------------------------------------------------------------------------------------------------
# 3. No reading of "assignment" makes both selectors right: the refinement replaces the base conclusion when SOME
#    binding of its further variable matches, its alternative looks at EVERY binding on its own.
# ----------------------------------------------------------------------------------------------------------------------
def refinement_and_alternative_disagree_on_what_a_match_is():
    @symbol
    @dataclass
    class Item:
        name: str
        b: int

    @symbol
    @dataclass
    class Part:
        name: str
        owner: str

    @symbol
    @dataclass
    class Tagged:
        item: Item
        tag: str

    items = [Item("x", 0), Item("z", 0)]
    parts = [Part("p1", "x"), Part("p3", "nobody")]

    def run(with_alternative):
        with symbolic_mode():
            it = let(Item, domain=items)
            pt = let(Part, domain=parts)
            lab = let(Tagged)
            q = infer(entity(lab, it.b >= 0))
        with rule_mode(q):
            Add(lab, Tagged(item=it, tag='base'))
            with refinement(pt.owner == it.name):
                Add(lab, Tagged(item=it, tag='has-part'))
                if with_alternative:
                    with alternative(it.b == 0):
                        Add(lab, Tagged(item=it, tag='b0'))
        return sorted(set((r.item.name, r.tag) for r in q.evaluate()))

    def per_item(with_alternative):
        """a match is a binding of the base's variable; the refinement applies when some part is owned by it."""
        out = []
        for x in items:
            if any(p.owner == x.name for p in parts):
                out.append((x.name, 'has-part'))
            elif with_alternative and x.b == 0:
                out.append((x.name, 'b0'))
            else:
                out.append((x.name, 'base'))
        return sorted(set(out))

    def per_pair(with_alternative):
        """a match is a binding of every variable of the tree."""
        out = []
        for x in items:
            for p in parts:
                if p.owner == x.name:
                    out.append((x.name, 'has-part'))
                elif with_alternative and x.b == 0:
                    out.append((x.name, 'b0'))
                else:
                    out.append((x.name, 'base'))
        return sorted(set(out))

    tree_a, tree_b = run(False), run(True)
    print("  tree A = base + refinement(pt.owner == it.name); tree B = tree A + alternative(it.b == 0) beside the "
          "refinement")
    print(f"    tree A actual {tree_a}")
    print(f"       per-item reading {per_item(False)}   per-pair reading {per_pair(False)}")
    print(f"    tree B actual {tree_b}")
    print(f"       per-item reading {per_item(True)}   per-pair reading {per_pair(True)}")
    per_item_ok = tree_a == per_item(False) and tree_b == per_item(True)
    per_pair_ok = tree_a == per_pair(False) and tree_b == per_pair(True)
    print(f"    both trees right under the per-item reading: {per_item_ok}; under the per-pair reading: {per_pair_ok}")
    return not (per_item_ok or per_pair_ok)


# ----------------------------------------------------------------------------------------------------------------------
# 4. A condition the user keeps in a Python variable and uses as the condition of two branches: the conclusions of
#    the two branches are pooled, every match of either branch gets the same one of them.
# ----------------------------------------------------------------------------------------------------------------------
def condition_object_used_for_two_branches():
    @symbol
    @dataclass
    class Item:
        name: str
        a: int
        b: int

    @symbol
    @dataclass
    class Tagged:
        item: Item
        tag: str

    items = [Item(f"i{a}{b}", a, b) for a in range(2) for b in range(3)]

    def run(share):
        with symbolic_mode():
            it = let(Item, domain=items)
            lab = let(Tagged)
            q = infer(entity(lab, it.a == 0))
            big = it.b >= 1
            big_again = big if share else (it.b >= 1)
        with rule_mode(q):
            Add(lab, Tagged(item=it, tag='base'))
            with refinement(big):
                Add(lab, Tagged(item=it, tag='base-big'))
            with alternative(it.a == 1):
                Add(lab, Tagged(item=it, tag='alt'))
                with refinement(big_again):
                    Add(lab, Tagged(item=it, tag='alt-big'))
        return [(r.item.name, r.tag) for r in q.evaluate()]

    def plain():
        out = []
        for x in items:
            if x.a == 0:
                out.append((x.name, 'base-big' if x.b >= 1 else 'base'))
            elif x.a == 1:
                out.append((x.name, 'alt-big' if x.b >= 1 else 'alt'))
        return out

    control = _report("control: two separately written `it.b >= 1`", plain(), run(share=False))
    shared = _report("big = it.b >= 1 kept in a variable and used for both refinements", plain(), run(share=True))
    if control:
        print("    (control itself is off!)")
    return shared


# ----------------------------------------------------------------------------------------------------------------------
# 5. A match for which the branch before the alternative produces no row at all (flatten of an empty container):
#    the branch did not fire on it, but the top-level alternative is never tried for it.
# ----------------------------------------------------------------------------------------------------------------------
def alternative_never_tried_for_match_without_rows():
    @symbol
    @dataclass
    class Item:
        name: str
        b: int
        kids: List[int] = field(default_factory=list)

    @symbol
    @dataclass
    class Tagged:
        item: Item
        tag: str

    items = [Item("no-kids", 1, []), Item("small-kid", 1, [1]), Item("big-kid", 0, [5])]

    with symbolic_mode():
        it = let(Item, domain=items)
        lab = let(Tagged)
        q = infer(entity(lab, flatten(it.kids) > 1))
    with rule_mode(q):
        Add(lab, Tagged(item=it, tag='has-big-kid'))
        with alternative(it.b == 1):
            Add(lab, Tagged(item=it, tag='b1'))

    expected = []
    for x in items:
        if any(k > 1 for k in x.kids):
            expected.append((x.name, 'has-big-kid'))
        elif x.b == 1:
            expected.append((x.name, 'b1'))
    v = _report("base flatten(it.kids) > 1, alternative(it.b == 1)", expected,
                [(r.item.name, r.tag) for r in q.evaluate()])

    # the same two branches one level down (refinement + its alternative) do reach the item without kids
    with symbolic_mode():
        it = let(Item, domain=items)
        lab = let(Tagged)
        q = infer(entity(lab, it.b >= 0))
    with rule_mode(q):
        Add(lab, Tagged(item=it, tag='base'))
        with refinement(flatten(it.kids) > 1):
            Add(lab, Tagged(item=it, tag='has-big-kid'))
            with alternative(it.b == 1):
                Add(lab, Tagged(item=it, tag='b1'))
    expected = [(x.name, 'has-big-kid' if any(k > 1 for k in x.kids) else ('b1' if x.b == 1 else 'base'))
                for x in items]
    _report("(for comparison) the same two branches as refinement + alternative under a base", expected,
            [(r.item.name, r.tag) for r in q.evaluate()])
    return v


# ----------------------------------------------------------------------------------------------------------------------
# 6. Matches that differ in a variable the conditions left unbound (the first operand of a disjunction held): the
#    plain query lists every one of them, the rule concludes for the first only.
# ----------------------------------------------------------------------------------------------------------------------
def one_conclusion_for_matches_differing_in_an_unbound_variable():
    @symbol
    @dataclass
    class Item:
        name: str
        a: int

    @symbol
    @dataclass
    class Part:
        name: str
        k: int

    @symbol
    @dataclass
    class Pair:
        item: Item
        part: Part
        tag: str

    items = [Item("x", 1), Item("y", 5)]
    parts = [Part("p1", 1), Part("p2", 2), Part("p3", 0)]
    with symbolic_mode():
        it = let(Item, domain=items)
        pt = let(Part, domain=parts)
        pr = let(Pair)
        # small items go with every part, other items with the parts that are big enough
        q = infer(entity(pr, or_(it.a < 2, pt.k >= it.a)))
        plain_query = an(set_of([it, pt], or_(it.a < 2, pt.k >= it.a)))
    with rule_mode(q):
        Add(pr, Pair(item=it, part=pt, tag='pair'))
        with refinement(pt.k == 0):
            Add(pr, Pair(item=it, part=pt, tag='pair-with-nothing'))
    matches = [(x, p) for x in items for p in parts if x.a < 2 or p.k >= x.a]
    print(f"  the matches of the base conditions, by the plain query an(set_of([it, pt], ...)): "
          f"{sorted((r[it].name, r[pt].name) for r in plain_query.evaluate())}")
    expected = [(x.name, p.name, 'pair-with-nothing' if p.k == 0 else 'pair') for x, p in matches]
    return _report("one conclusion per match", expected, [(r.item.name, r.part.name, r.tag) for r in q.evaluate()])


# ----------------------------------------------------------------------------------------------------------------------
# 7. An attribute alias (doc style: `handle = fixed_connection.child`) that is an operand of the base condition and
#    then the condition of a refinement: the refinement fires whatever the value of the attribute is.
# ----------------------------------------------------------------------------------------------------------------------
def attribute_alias_as_refinement_condition():
    @symbol
    @dataclass
    class Door:
        name: str
        width: int
        locked: object = None

    @symbol
    @dataclass
    class Tagged:
        item: Door
        tag: str

    doors = [Door("d1", 1, False), Door("d2", 2, True), Door("d3", 3, None), Door("d4", 4, 0)]

    def run(alias):
        with symbolic_mode():
            d = let(Door, domain=doors)
            lab = let(Tagged)
            locked = d.locked
            q = infer(entity(lab, locked != None))
        with rule_mode(q):
            Add(lab, Tagged(item=d, tag='state known'))
            with refinement(locked if alias else d.locked):
                Add(lab, Tagged(item=d, tag='locked'))
        return [(r.item.name, r.tag) for r in q.evaluate()]

    expected = [(x.name, 'locked' if x.locked else 'state known') for x in doors if x.locked != None]
    control = _report("control: refinement(d.locked), a second attribute expression", expected, run(alias=False))
    v = _report("locked = d.locked; base locked != None; refinement(locked)", expected, run(alias=True))
    if control:
        print("    (control itself is off!)")
    return v


OBSERVATIONS = [
    alternative_fires_beside_fired_refinement_join,
    alternative_fires_beside_fired_refinement_other_spellings,
    refinement_and_alternative_disagree_on_what_a_match_is,
    condition_object_used_for_two_branches,
    alternative_never_tried_for_match_without_rows,
    one_conclusion_for_matches_differing_in_an_unbound_variable,
    attribute_alias_as_refinement_condition,
]

if __name__ == '__main__':
    summary = []
    for observation in OBSERVATIONS:
        print(f"== {observation.__name__}")
        try:
            violated = observation()
        except Exception as e:  # an observation that raises is reported, not hidden
            import traceback
            traceback.print_exc()
            violated = None
        summary.append((observation.__name__, violated))
    print()
    for name, violated in summary:
        print(f"{'VIOLATED' if violated else ('ERROR' if violated is None else 'holds')} {name}")
