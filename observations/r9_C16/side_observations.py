"""
Side observations for property C16:

    flatten behaves as UNNEST: one row per inner element, correlated with its parent.

Run with
    PYTHONPATH=/tmp/r9_C16/src /venv/bin/python /tmp/r9_C16/side_observations.py

Every function is self-contained (own classes, own data), prints what the property expects and what the library
returns, and returns True when the property is violated.
"""
from dataclasses import dataclass

from entity_query_language import (an, entity, set_of, let, symbolic_mode, rule_mode, infer, flatten, and_, or_,
                                   for_all)
from entity_query_language.predicate import symbol
from entity_query_language.rule import alternative
from entity_query_language.conclusion import Add


def _same_rows(actual, expected):
    return sorted(map(repr, actual)) == sorted(map(repr, expected))


# ----------------------------------------------------------------------------------------------------------------------
# 1. An inner list that holds the same element twice: the second evaluation of the query returns fewer rows
# ----------------------------------------------------------------------------------------------------------------------
def repeated_element_lost_on_reevaluation():
    @symbol
    @dataclass(eq=False)
    class Shelf:
        name: str
        weights: list

    shelves = [Shelf("s", [4, 4, 1])]
    with symbolic_mode():
        s = let(Shelf, shelves)
        w = flatten(s.weights)
        query = an(set_of([s, w], w > 0))

    expected = [(sh.name, x) for sh in shelves for x in sh.weights if x > 0]
    first = [(r[s].name, r[w]) for r in query.evaluate()]
    second = [(r[s].name, r[w]) for r in query.evaluate()]
    print("  data: Shelf('s', weights=[4, 4, 1]); query: an(set_of([s, w], w > 0)), w = flatten(s.weights)")
    print("  expected (each evaluation):", expected)
    print("  1st evaluation            :", first)
    print("  2nd evaluation            :", second)
    return not (_same_rows(first, expected) and _same_rows(second, expected))


# ----------------------------------------------------------------------------------------------------------------------
# 2. Same data, ONE evaluation, one more variable: the first binding of the other variable gets a row per element,
#    every later binding gets the repeated element once
# ----------------------------------------------------------------------------------------------------------------------
def repeated_element_lost_under_second_binding():
    @symbol
    @dataclass(eq=False)
    class Shelf:
        name: str
        weights: list

    @symbol
    @dataclass(eq=False)
    class Robot:
        name: str
        payload: int

    shelves = [Shelf("s", [4, 4])]
    robots = [Robot("r1", 9), Robot("r2", 9)]
    with symbolic_mode():
        s = let(Shelf, shelves)
        r = let(Robot, robots)
        w = flatten(s.weights)
        query = an(set_of([r, s, w], r.payload > 5, w > 1))

    expected = [(ro.name, sh.name, x) for ro in robots for sh in shelves for x in sh.weights
                if ro.payload > 5 and x > 1]
    actual = [(row[r].name, row[s].name, row[w]) for row in query.evaluate()]
    print("  data: Shelf('s', [4, 4]); robots r1, r2; query: an(set_of([r, s, w], r.payload > 5, w > 1))")
    print("  expected:", expected)
    print("  actual  :", actual)
    return not _same_rows(actual, expected)


# ----------------------------------------------------------------------------------------------------------------------
# 3. Same kind of data, ONE evaluation, a disjunction on the flattened element
# ----------------------------------------------------------------------------------------------------------------------
def repeated_element_lost_under_disjunction():
    @symbol
    @dataclass(eq=False)
    class Shelf:
        name: str
        weights: list

    shelves = [Shelf("s", [1, 2, 2])]
    with symbolic_mode():
        s = let(Shelf, shelves)
        w = flatten(s.weights)
        query = an(set_of([s, w], or_(w == 1, w == 2)))
    with symbolic_mode():
        s2 = let(Shelf, shelves)
        w2 = flatten(s2.weights)
        query_single = an(set_of([s2, w2], w2 <= 2))

    expected = [(sh.name, x) for sh in shelves for x in sh.weights if x == 1 or x == 2]
    actual = [(row[s].name, row[w]) for row in query.evaluate()]
    actual_single = [(row[s2].name, row[w2]) for row in query_single.evaluate()]
    print("  data: Shelf('s', [1, 2, 2])")
    print("  expected                          :", expected)
    print("  an(set_of([s, w], or_(w==1, w==2))):", actual)
    print("  an(set_of([s, w], w <= 2))  (same) :", actual_single)
    return not _same_rows(actual, expected)


# ----------------------------------------------------------------------------------------------------------------------
# 4. A for_all condition on the flattened element: rows carry elements for which the condition does not hold
# ----------------------------------------------------------------------------------------------------------------------
def for_all_condition_on_flattened_element():
    @symbol
    @dataclass(eq=False)
    class Shelf:
        name: str
        weights: list

    @symbol
    @dataclass(eq=False)
    class Limit:
        minimum: int

    shelves = [Shelf("a", [1, 2, 3]), Shelf("b", [3, 4]), Shelf("d", [9])]
    limits = [Limit(3), Limit(4), Limit(1)]

    def build(order):
        with symbolic_mode():
            s = let(Shelf, shelves)
            l = let(Limit, limits)
            w = flatten(s.weights)
            universal = for_all(l, w >= l.minimum)
            if order == "only":
                cond = universal
            elif order == "for_all first":
                cond = and_(universal, w > 1)
            else:
                cond = and_(w > 1, universal)
            return s, w, an(set_of([s, w], cond))

    expected = [(sh.name, x) for sh in shelves for x in sh.weights if all(x >= li.minimum for li in limits)]
    violated = False
    print("  data: shelves a=[1,2,3], b=[3,4], d=[9]; limits 3, 4, 1;  w = flatten(s.weights)")
    print("  expected (all three spellings)               :", expected)
    for order, text in (("only", "for_all(l, w >= l.minimum)"),
                        ("for_all first", "and_(for_all(l, w >= l.minimum), w > 1)"),
                        ("for_all last", "and_(w > 1, for_all(l, w >= l.minimum))")):
        s, w, query = build(order)
        actual = [(row[s].name, row[w]) for row in query.evaluate()]
        print("  %-45s: %s" % (text, actual))
        violated = violated or not _same_rows(actual, expected)
    return violated


# ----------------------------------------------------------------------------------------------------------------------
# 5. Rule tree with an alternative: only the first element of a parent is concluded upon
# ----------------------------------------------------------------------------------------------------------------------
def alternative_concludes_once_per_parent():
    @symbol
    @dataclass(eq=False)
    class Shelf:
        name: str
        weights: list

    @symbol
    @dataclass(eq=False)
    class Light:
        shelf: object
        weight: int

        def __repr__(self):
            return "%s(%s, %s)" % (type(self).__name__, self.shelf.name, self.weight)

    @symbol
    @dataclass(eq=False, repr=False)
    class Heavy(Light):
        ...

    shelves = [Shelf("a", [1, 2, 3]), Shelf("b", [3, 4, 5])]
    with symbolic_mode():
        s = let(Shelf, shelves)
        w = flatten(s.weights)
        loads = let(Light)
        query = infer(entity(loads, w < 3))
    with rule_mode(query):
        Add(loads, Light(shelf=s, weight=w))
        with alternative(w > 3):
            Add(loads, Heavy(shelf=s, weight=w))

    expected = ["%s(%s, %s)" % ("Light" if x < 3 else "Heavy", sh.name, x)
                for sh in shelves for x in sh.weights if x < 3 or x > 3]
    actual = [repr(v) for v in query.evaluate()]
    print("  data: shelves a=[1,2,3], b=[3,4,5]; rule: w < 3 -> Light(s, w); alternative w > 3 -> Heavy(s, w)")
    print("  expected:", expected)
    print("  actual  :", actual)
    return not _same_rows(actual, expected)


# ----------------------------------------------------------------------------------------------------------------------
# 6. The flattened element used only in the conclusion of a rule: first element only, and an empty list raises
# ----------------------------------------------------------------------------------------------------------------------
def add_conclusion_takes_first_element_only():
    @symbol
    @dataclass(eq=False)
    class Shelf:
        name: str
        weights: list
        level: int = 1

    @symbol
    @dataclass(eq=False)
    class Load:
        shelf: object
        weight: int

        def __repr__(self):
            return "Load(%s, %s)" % (self.shelf.name, self.weight)

    def as_rule_tree(shelves):
        with symbolic_mode():
            s = let(Shelf, shelves)
            w = flatten(s.weights)
            loads = let(Load)
            query = infer(entity(loads, s.level == 1))
        with rule_mode(query):
            Add(loads, Load(shelf=s, weight=w))
        return query

    def as_inferred_entity(shelves):
        with rule_mode():
            s = let(Shelf, shelves)
            w = flatten(s.weights)
            return infer(entity(Load(shelf=s, weight=w), s.level == 1))

    shelves = [Shelf("a", [1, 2, 3]), Shelf("b", [3, 4])]
    expected = ["Load(%s, %s)" % (sh.name, x) for sh in shelves for x in sh.weights if sh.level == 1]
    inferred = [repr(v) for v in as_inferred_entity(shelves).evaluate()]
    rule_tree = [repr(v) for v in as_rule_tree(shelves).evaluate()]
    print("  data: shelves a=[1,2,3], b=[3,4] (both level 1)")
    print("  expected                                                  :", expected)
    print("  infer(entity(Load(shelf=s, weight=w), s.level == 1))       :", inferred)
    print("  infer(entity(loads, s.level == 1)) + Add(loads, Load(s, w)):", rule_tree)

    with_empty = shelves + [Shelf("c", [])]
    try:
        with_empty_rows = [repr(v) for v in as_rule_tree(with_empty).evaluate()]
    except Exception as e:
        with_empty_rows = "raised %s: %s" % (type(e).__name__, e)
    print("  ... with an additional Shelf('c', []) (expected: same rows) :", with_empty_rows)
    return not _same_rows(rule_tree, expected)


OBSERVATIONS = [
    repeated_element_lost_on_reevaluation,
    repeated_element_lost_under_second_binding,
    repeated_element_lost_under_disjunction,
    for_all_condition_on_flattened_element,
    alternative_concludes_once_per_parent,
    add_conclusion_takes_first_element_only,
]

if __name__ == "__main__":
    summary = []
    for observation in OBSERVATIONS:
        print("== %s" % observation.__name__)
        try:
            violated = observation()
        except Exception as e:  # an unexpected exception is a violation as well, the inputs are all valid
            print("  raised %s: %s" % (type(e).__name__, e))
            violated = True
        summary.append(("VIOLATED" if violated else "holds", observation.__name__))
        print()
    for verdict, name in summary:
        print("%s %s" % (verdict, name))
