"""
Side observations for property C05 "Result caching is transparent".

Every function is self-contained (own classes, own data), builds the SAME query once with the result cache enabled and
once with it disabled (fresh expression objects each time, same data), evaluates it several times and compares with
what plain Python says. Run with

    PYTHONPATH=/tmp/r9_C05/src /venv/bin/python /tmp/r9_C05/side_observations.py
"""
from collections import Counter
from dataclasses import dataclass, field
from typing import List

from entity_query_language import (an, the, entity, set_of, let, flatten, symbol, symbolic_mode)
from entity_query_language.cache_data import enable_caching, disable_caching

SUMMARY = []


def _in_both_configurations(build_and_run):
    """
    Run build_and_run() (which builds fresh expressions and returns a list with one entry per evaluation) with the result
    cache enabled and with it disabled.
    """
    results = {}
    for caching in (True, False):
        (enable_caching if caching else disable_caching)()
        try:
            results[caching] = build_and_run()
        finally:
            enable_caching()
    return results[True], results[False]


def _report(name, expected, cached, uncached, note=""):
    print(f"--- {name}")
    if note:
        print(f"    {note}")
    print(f"    expected by the property (plain Python), every evaluation: {expected}")
    for i, (c, u) in enumerate(zip(cached, uncached)):
        mark = "  " if c == u else "!!"
        print(f"    {mark} evaluation {i + 1}: cache enabled : {c}")
        print(f"    {mark}               cache disabled: {u}")
    violated = cached != uncached
    SUMMARY.append(f"{'VIOLATED' if violated else 'holds'} {name}")


# ----------------------------------------------------------------------------------------------------------------------
# Observation 1: a flattened list that holds the same element twice
# ----------------------------------------------------------------------------------------------------------------------
def flatten_repeated_element_row_count():
    """
    flatten() is UNNEST: one row per element. When the list holds the same object twice ([2, 2], ['dune', 'dune'], the
    same Body listed twice), the two rows have the same (parent id, element id). Computed results keep both rows; results
    answered from the comparator's cache (second evaluation on) keep one. All variables (and the flattened element) are
    selected, so the row count is covered by the property.
    """

    @symbol
    @dataclass(eq=False)
    class Box:
        name: str
        sizes: List[int] = field(default_factory=list)

    boxes = [Box('p', [2, 2]), Box('q', [0, 1])]
    expected = sorted((b.name, s) for b in boxes for s in b.sizes if s >= 1)

    def build_and_run():
        with symbolic_mode():
            box = let(Box, domain=boxes)
            size = flatten(box.sizes)
            query = an(set_of([box, size], size >= 1))
        return [sorted((r[box].name, r[size]) for r in query.evaluate()) for _ in range(3)]

    cached, uncached = _in_both_configurations(build_and_run)
    _report("flatten_repeated_element_row_count", expected, cached, uncached)


def flatten_repeated_element_the_after_an():
    """
    Same cause, other symptom: a condition object used by an an(...) listing and then by a the(...) query. Without the
    cache the(...) raises MultipleSolutionFound (two rows for shelf s1), with the cache (completed by the listing) it
    returns s1.
    """

    @symbol
    @dataclass(eq=False)
    class Shelf:
        name: str
        books: List[str] = field(default_factory=list)

    shelves = [Shelf('s1', ['dune', 'dune']), Shelf('s2', ['emma'])]
    rows = [(s.name, b) for s in shelves for b in s.books if b == 'dune']
    expected = [sorted(rows), 'MultipleSolutionFound' if len(rows) > 1 else rows[0][0]]

    def build_and_run():
        with symbolic_mode():
            shelf = let(Shelf, domain=shelves)
            book = flatten(shelf.books)
            has_dune = book == 'dune'
            listing = an(set_of([shelf, book], has_dune))
            unique = the(entity(shelf, has_dune))
        out = [sorted((r[shelf].name, r[book]) for r in listing.evaluate())]
        try:
            out.append(unique.evaluate().name)
        except Exception as e:
            out.append(type(e).__name__)
        return [out]

    cached, uncached = _in_both_configurations(build_and_run)
    _report("flatten_repeated_element_the_after_an", expected, cached, uncached,
            note="one 'evaluation' = [rows of the an(...) listing, result of the(...) over the same condition object]")


# ----------------------------------------------------------------------------------------------------------------------
# Observation 2: a sub-query that selects an expression (attribute / index / call / flatten) over a variable that its own
# condition does not mention. That variable is not among the cache keys of the operator the sub-query is an operand of.
# ----------------------------------------------------------------------------------------------------------------------
def subquery_selected_attribute_first_evaluation():
    """
    `level = an(entity(task.level))` ("the level of a task"), used as an operand: (task.level >= 2) & (robot.level == level).
    The conjunction's left side binds `task`; the right side depends on it through `level`, but `task` is no key of the right
    side's caches, so after the first task the cache claims to be complete and answers for every other task with the
    first task's results. Wrong already on the FIRST evaluation with the cache enabled.
    """

    @symbol
    @dataclass(eq=False)
    class Task:
        name: str
        level: int

    @symbol
    @dataclass(eq=False)
    class Robot:
        name: str
        level: int

    tasks = [Task('t1', 1), Task('t2', 2), Task('t3', 3)]
    robots = [Robot('r1', 1), Robot('r2', 2), Robot('r3', 3)]
    expected = sorted((r.name, t.name) for t in tasks if t.level >= 2 for r in robots if r.level == t.level)

    def build_and_run():
        with symbolic_mode():
            task = let(Task, domain=tasks)
            robot = let(Robot, domain=robots)
            level = an(entity(task.level))
            query = an(set_of([robot, task], (task.level >= 2) & (robot.level == level)))
        return [sorted((r[robot].name, r[task].name) for r in query.evaluate()) for _ in range(2)]

    cached, uncached = _in_both_configurations(build_and_run)
    _report("subquery_selected_attribute_first_evaluation", expected, cached, uncached)


def subquery_selected_flatten_reevaluation():
    """
    `needed = an(entity(flatten(task.skills)))` ("a skill some task needs"); query: robots with the task that needs their
    skill. First evaluation is right in both configurations; answered from the comparator's cache (second evaluation on)
    the rows no longer bind `task` (not a cache key), so every robot that matched is paired with EVERY task.
    """

    @symbol
    @dataclass(eq=False)
    class Task:
        name: str
        skills: List[str] = field(default_factory=list)

    @symbol
    @dataclass(eq=False)
    class Robot:
        name: str
        skill: str

    tasks = [Task('t1', ['weld', 'lift']), Task('t2', ['lift', 'paint']), Task('t3', [])]
    robots = [Robot('r1', 'weld'), Robot('r2', 'lift'), Robot('r3', 'paint')]
    expected = sorted((r.name, t.name) for r in robots for t in tasks if r.skill in t.skills)

    def build_and_run():
        with symbolic_mode():
            task = let(Task, domain=tasks)
            robot = let(Robot, domain=robots)
            needed = an(entity(flatten(task.skills)))
            query = an(set_of([robot, task], robot.skill == needed))
        return [sorted((r[robot].name, r[task].name) for r in query.evaluate()) for _ in range(3)]

    cached, uncached = _in_both_configurations(build_and_run)
    _report("subquery_selected_flatten_reevaluation", expected, cached, uncached)


def subquery_selected_attribute_projection_reevaluation():
    """
    The same with only ONE variable selected (a plain result SET, no row counts involved):
    an(entity(robot, (robot.level == level) & (task.name == 't3'))) - robots on the level of task t3.
    """

    @symbol
    @dataclass(eq=False)
    class Task:
        name: str
        level: int

    @symbol
    @dataclass(eq=False)
    class Robot:
        name: str
        level: int

    tasks = [Task('t1', 1), Task('t2', 2), Task('t3', 3)]
    robots = [Robot('r1', 1), Robot('r2', 2), Robot('r3', 3)]
    expected = sorted({r.name for r in robots for t in tasks if r.level == t.level and t.name == 't3'})

    def build_and_run():
        with symbolic_mode():
            task = let(Task, domain=tasks)
            robot = let(Robot, domain=robots)
            level = an(entity(task.level))
            query = an(entity(robot, (robot.level == level) & (task.name == 't3')))
        return [sorted({r.name for r in query.evaluate()}) for _ in range(3)]

    cached, uncached = _in_both_configurations(build_and_run)
    _report("subquery_selected_attribute_projection_reevaluation", expected, cached, uncached)


def subquery_selected_attribute_of_flatten_reevaluation():
    """
    Variant where the sub-query's condition DOES mention the variable, but the flattened element only occurs in what the
    sub-query selects (`part.weight`): the Flatten is not a cache key either, a row answered from the cache has lost which
    part it was about and the outer query pairs the cabinet with all of its parts.
    """

    @symbol
    @dataclass(eq=False)
    class Part:
        name: str
        weight: int

    @symbol
    @dataclass(eq=False)
    class Cabinet:
        name: str
        parts: List[Part] = field(default_factory=list)

    @symbol
    @dataclass(eq=False)
    class Crane:
        name: str
        capacity: int

    p1, p2, p3 = Part('p1', 1), Part('p2', 2), Part('p3', 3)
    cabinets = [Cabinet('c1', [p1, p2]), Cabinet('c2', [p2, p3]), Cabinet('c3', [])]
    cranes = [Crane('k1', 1), Crane('k2', 2), Crane('k3', 3)]
    expected = sorted((k.name, c.name, p.name) for k in cranes for c in cabinets for p in c.parts
                      if k.capacity == p.weight)

    def build_and_run():
        with symbolic_mode():
            cabinet = let(Cabinet, domain=cabinets)
            crane = let(Crane, domain=cranes)
            part = flatten(cabinet.parts)
            weight = an(entity(part.weight, cabinet.name != 'c3'))
            query = an(set_of([crane, cabinet, part], crane.capacity == weight))
        return [sorted((r[crane].name, r[cabinet].name, r[part].name) for r in query.evaluate()) for _ in range(3)]

    cached, uncached = _in_both_configurations(build_and_run)
    _report("subquery_selected_attribute_of_flatten_reevaluation", expected, cached, uncached)


if __name__ == '__main__':
    flatten_repeated_element_row_count()
    flatten_repeated_element_the_after_an()
    subquery_selected_attribute_first_evaluation()
    subquery_selected_flatten_reevaluation()
    subquery_selected_attribute_projection_reevaluation()
    subquery_selected_attribute_of_flatten_reevaluation()
    print()
    for line in SUMMARY:
        print(line)
