"""record_fix.py <KF-id> <property> <found-file> <replay-name> <summary> <line>: store a replay under replays/<property>/ and
append a 'fixed' entry (commit = /repo HEAD) to known_findings.json."""
import json, os, shutil, subprocess, sys
HERE = os.path.dirname(os.path.dirname(os.path.abspath(__file__)))
kf, prop, src, name, summary, line = sys.argv[1:7]
dst = os.path.join("replays", prop, name)
os.makedirs(os.path.join(HERE, "replays", prop), exist_ok=True)
shutil.copy(os.path.join(HERE, src) if not os.path.isabs(src) else src, os.path.join(HERE, dst))
c = subprocess.check_output(["git", "-C", "/repo", "log", "--format=%h", "-1"]).decode().strip()
p = os.path.join(HERE, "known_findings.json")
d = json.load(open(p))
assert not any(k["id"] == kf for k in d["findings"]), kf
d["findings"].append({"id": kf, "property": prop, "status": "fixed", "commit": c, "summary": summary, "replay": dst,
                      "line": f"fixed: property={prop} {c} {line}"})
json.dump(d, open(p, "w"), indent=1)
print("recorded", kf, c, dst)
