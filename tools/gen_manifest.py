"""Regenerate /verif/MANIFEST.json from the property modules that exist (keeps the manifest valid at all times)."""
import importlib, json, os, sys
HERE = os.path.dirname(os.path.dirname(os.path.abspath(__file__)))
sys.path.insert(0, HERE)
from eqlv import env
env.import_eql()

LEVEL_TEXT = {
}
NOT_APPLICABLE = {}

props = [json.loads(l) for l in open(os.path.join(HERE, "properties.jsonl"))]
checks, na = [], []
for p in props:
    pid = p["id"]
    path = os.path.join(HERE, "eqlv", "props", pid.lower() + ".py")
    if not os.path.exists(path):
        na.append({"property_id": pid, "reason": NOT_APPLICABLE.get(pid, "check not built yet (work in progress); nothing is claimed for it")})
        continue
    m = importlib.import_module("eqlv.props." + pid.lower())
    checks.append({
        "property_id": pid,
        "quick_cmd": f"./check {pid} --tier quick",
        "thorough_cmd": f"./check {pid} --tier thorough",
        "evidence_file": f"evidence/{pid}.json",
        "replay_cmd_template": f"./check {pid} --replay {{path}}",
        "engine": "eqlv",
        "level_claimed": {
            "category": "exploration",
            "text": getattr(m, "LEVEL_TEXT", "Generated-input search against an explicit oracle: the property held on every "
                    "generated case of the stated classes (counts in the evidence file) and on the enumerated small "
                    "scopes; absence of violations outside the explored space is not established."),
            "design_ref": f"DESIGN.md section 5, {pid}",
        },
        "level_note": "Trusted base: the harness's own reference evaluator / model (eqlv/ast.py and the property module), "
                      "Hypothesis 6.168, CPython 3.12. " + " ".join(getattr(m, "ASSUMPTIONS", [])),
        "technique": m.TECHNIQUE,
    })
manifest = {
    "version": 1,
    "setup_cmd": "./setup.sh",
    "hooks": {
        "guard": "EQL_VERIF",
        "enable": "none needed: the checks import /repo/src directly and observe everything from outside "
                  "(results, exceptions, mode queries, logging iterators, constructor counters, a run-time wrapper "
                  "around IndexedCache.retrieve installed by the harness process); no guarded source commits exist",
        "baseline_off_cmd": "cd /repo && /venv/bin/python -m pytest -ra -q -p no:cacheprovider --timeout=900 --continue-on-collection-errors",
        "source_commits": [],
        "add_only": True,
    },
    "engines": [{"name": "eqlv", "path": "eqlv/", "serves_properties": [c["property_id"] for c in checks],
                 "kind_free_text": "Hypothesis property-based / model-based testing with small-scope exhaustive slices, "
                                   "sharded over processes; replay files are shrunk JSON cases"}],
    "checks": checks,
    "not_applicable": na,
    "notes": "All checks: ./check <ID> [--tier quick|thorough] [--replay FILE]; VERIF_SEED selects the seed. "
             "known_findings.json lists open findings and fixed defects; see DESIGN.md.",
}
json.dump(manifest, open(os.path.join(HERE, "MANIFEST.json"), "w"), indent=1)
print(len(checks), "checks,", len(na), "not yet claimed")
