#!/bin/bash
# make_rebase_tasks.sh <groups> <name>...: prepare <groups> scratch worktrees /tmp/rb1.. of /repo's HEAD, each with a todo/
# directory holding patch.diff, demo.py and NOTES.md of some of the named seeded changes whose patch no longer applies, and a
# TASK.md that asks a sub-agent to re-create each edit on the current tree (patch.new.diff + STATUS.txt per item).
# Afterwards:  tools/collect_rebased.sh <groups>
G="$1"; shift
HERE="$(cd "$(dirname "${BASH_SOURCE[0]}")/.." && pwd)"
for g in $(seq 1 $G); do git -C /repo worktree add -f /tmp/rb$g HEAD -q --detach; mkdir -p /tmp/rb$g/todo; done
i=0
for n in "$@"; do
  g=$(( i % G + 1 )); mkdir -p /tmp/rb$g/todo/$n
  cp $HERE/seeded/$n/patch.diff $HERE/seeded/$n/demo.py /tmp/rb$g/todo/$n/
  [ -f $HERE/seeded/$n/NOTES.md ] && cp $HERE/seeded/$n/NOTES.md /tmp/rb$g/todo/$n/
  i=$((i+1))
done
for g in $(seq 1 $G); do
cat > /tmp/rb$g/TASK.md <<E
# Task: re-create stale patches on the current source tree

Your scratch git worktree: /tmp/rb$g (a checkout of the Python library entity_query_language; source under
/tmp/rb$g/src/entity_query_language). Work ONLY inside /tmp/rb$g. Never touch /repo or /verif.

The directory /tmp/rb$g/todo/ holds one sub-directory per item. Each contains:
  * patch.diff  - a small source change (a deliberately seeded defect) that was made against an OLDER version of the
                  library and no longer applies to the current tree, because the surrounding code was changed since,
  * NOTES.md    - what the change does and why (read it first),
  * demo.py     - a program that exits 1 when the seeded defect is present and 0 when it is absent.

For EACH item, one after the other:
 1. make sure the worktree is clean (git -C /tmp/rb$g checkout -- src),
 2. re-create THE SAME edit by hand on the current source (same idea, same place; adapt it to the code as it is now; keep
    it as small as the original). Do not fix or improve anything else.
 3. verify with   cd /tmp/rb$g && PYTHONPATH=/tmp/rb$g/src /venv/bin/python -m pytest -q -p no:cacheprovider --deselect test/test_rendering.py
    that 70 tests pass, and with   PYTHONPATH=/tmp/rb$g/src /venv/bin/python todo/<item>/demo.py   that the demo exits 1
    with your edit and 0 after  git checkout -- src .
 4. save the edit as  git -C /tmp/rb$g diff -- src > /tmp/rb$g/todo/<item>/patch.new.diff  (with the edit applied), then
    clean the worktree again.
 5. write one line to /tmp/rb$g/todo/<item>/STATUS.txt : "ok" when everything above holds; "equivalent: <why>" when
    the current tree has been changed in a way that makes the seeded edit impossible or harmless (for example the
    line it removed is gone, or the current code already guards against it) - in that case still save your best
    attempt as patch.new.diff if there is one; "demo passes with the edit: <what you observed>" when the edit can be
    re-created but the demo no longer fails.

There is no network. Report a short summary per item at the end.
E
echo "/tmp/rb$g: $(ls /tmp/rb$g/todo | tr '\n' ' ')"
done
