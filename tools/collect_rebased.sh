#!/bin/bash
# collect_rebased.sh <groups>: copy every todo/<name>/patch.new.diff of /tmp/rb1.. back to seeded/<name>/patch.diff, print the
# status lines, and remove the scratch worktrees.
G="$1"; HERE="$(cd "$(dirname "${BASH_SOURCE[0]}")/.." && pwd)"
for g in $(seq 1 $G); do
  for d in /tmp/rb$g/todo/*/; do
    n=$(basename $d); st=$(head -1 $d/STATUS.txt 2>/dev/null | cut -c1-160)
    [ -s $d/patch.new.diff ] && cp $d/patch.new.diff $HERE/seeded/$n/patch.diff
    echo "$n: $st"
  done
  git -C /repo worktree remove --force /tmp/rb$g
done
