"""make_seed_tasks.py <round-letter-or-number>: write /tmp/r<round>_<CNN>/TASK.md for a round of independent sub-agents.

Each task file contains ONLY the property text, the agent's own scratch worktree (create it first with
`git -C /repo worktree add --detach /tmp/r<round>_<CNN> HEAD`), the titles of the earlier seeded changes for that property
(so that the agent looks for another mechanism) and a focus hint - nothing about the checks of /verif.
Harvest with tools/harvest_seed.sh <CNN> <CNN>_<letter> /tmp/r<round>_<CNN>.
"""
import glob
import json
import os
import sys

HERE = os.path.dirname(os.path.dirname(os.path.abspath(__file__)))
ROUND = sys.argv[1]

FOCUS = {
    "C01": "two language features meeting in ONE condition (index of a call result, call on an indexed element, membership in an attribute of an attribute, comparison of two mapped values of the same object), API spellings shown in doc/*.md that the tests do not use, domains that are custom iterable classes or dict .values() views",
    "C02": "selections that mix variables and value expressions of several variables, the same variable selected twice, joins through identity of a mapped value (x.ref == y), more than three variables, variables declared but mentioned only in the selection",
    "C03": "negation of membership tests (in_/contains in both spellings and operand orders), of comparisons whose operands are both mapped values, of conditions that contain a literal operand on the left, of nested sub-queries; the operator ~ mixed with not_()",
    "C04": "long histories on ONE query object (ten evaluations with different consumers: list(), next(), for/break, islice, zip of two different queries), exceptions raised by a domain object's property or __eq__ during evaluation, `the` queries that raise in the middle of a history",
    "C05": "the enable_caching()/disable_caching() switch flipped BETWEEN building and evaluating, between two evaluations, or inside a user predicate during an evaluation; queries whose operators are shared with a rule tree; cache behaviour of Index / Call / HasType nodes",
    "C06": "the(set_of(...)) with value expressions selected, the(...) over value-equal objects and over objects whose __eq__ is unusual, the(...) evaluated after a loop over another query's results finished, the(...) of a description with for_all / flatten",
    "C07": "domains given as generator EXPRESSIONS over other collections, as map/filter/zip objects, as custom iterators with __length_hint__, as iterators that yield the same object twice; predicate-form declarations with several keyword constraints over a lazy domain",
    "C08": "rule.py blocks (refinement / alternative / next_rule) as context managers: entering and leaving them by exceptions, using them outside rule_mode(query); `with query:` combined with symbolic_mode(); the operators __contains__ / __and__ / __or__ / __invert__ on variables",
    "C09": "infer(...) and Add/Set conclusions evaluated inside refinement/alternative blocks or inside rule_mode(other_query); a Predicate subclass whose __call__ builds and evaluates another query; a @symbol class whose __post_init__ constructs other @symbol instances",
    "C10": "two for_all conditions in one query (over the same / over different universal variables), for_all whose condition is a sub-query or contains flatten, for_all combined by and_ with a condition that shares expression objects with it, universal variable declared in predicate form with a keyword constraint",
    "C11": "heads with nested heads two levels deep, heads whose arguments are sub-queries or flatten expressions, heads with default_factory / init=False / InitVar fields, positional heads mixed with keywords, the same variable passed to two parameters",
    "C12": "three and more levels of nesting mixing refinement and alternative in both orders, several alternatives in a row beneath a refinement, conclusions of Add with constants / with expressions over two variables, the same rule tree evaluated many times with abandoned evaluations in between",
    "C13": "nested terms two levels deep, the same nested term object used in two outer terms, terms over tuple / generator / set domains, fields that are properties or class attributes, keyword values that are expressions over another variable (T(From(d), a=y.a))",
    "C14": "instances created by copy.copy / dataclasses.replace / pickle / a classmethod factory / __new__ called directly, classes with __slots__, instances created while a query over the same class is being evaluated, registry behaviour across rule evaluations that create instances of the queried class",
    "C15": "sub-queries nested three levels deep, a sub-query that selects several variables (set_of) used in a condition next to conditions on those variables, the same sub-query object in two places of one query, the(...) sub-queries whose uniqueness depends on the outer binding, sub-queries inside for_all and inside rule heads",
    "C16": "two flatten expressions in one query (over the same / different parents), flatten of flatten (nested collections), flatten over dict / set / generator attributes, the flattened element compared with an attribute of its own parent, flatten inside a sub-query",
    "C17": "concatenate over an expression with TWO variables beneath it, concatenate of flatten of a mapped value, the concatenated value compared with == to a list, membership of a mapped value of the SAME parent variable, concatenate inside a sub-query or under for_all",
    "C18": "re-association of chains with four and more operands, mixing & / | operators with and_() / or_() calls, mirrored comparisons where BOTH operands are mapped values of different variables, contains() versus in_() with a literal container, the order of keyword constraints in predicate-form declarations",
    "C19": "falsy KEYS and ARGUMENTS rather than values (d[0], d[''], method(0), method('')), falsy results of properties, falsy values as selected outputs of set_of together with other outputs, falsy constructor arguments of rule heads (Add(v, T(x=0))), falsy constants in Add/Set conclusions",
    "C20": "cache_data.py only: keys given as other hashables than ints (strings, tuples), the keys setter called after inserts, retrieve() consumed lazily while inserts happen, check() on a cache with a single key, outputs that are None / equal to each other, very partial bindings of caches with many keys",
}

TEMPLATE = '''# Task

You are helping to evaluate a verification framework for the Python library `entity_query_language` (EQL).
Your job has two parts of EQUAL value:

A. produce ONE realistic, subtle change to the library's source that BREAKS the semantic property quoted below, while the
   library still imports and its existing test-suite still passes. The change must look like something a well-meaning
   developer could commit (a refactoring, optimisation, clean-up, "robustness" tweak, or a plausible bug fix that is
   wrong in a corner case) - not an obviously malicious edit.
B. while you explore, look for behaviour of the UNCHANGED library that already violates the property (valid inputs,
   public API, deterministic), and write each one down with a minimal reproduction.

## The property ({pid})

**{title}**

{statement}

## Where to work

* Your own scratch git worktree of the library: `{wt}` (source under `{wt}/src/entity_query_language`, tests under
  `{wt}/test`, docs under `{wt}/doc`). Work ONLY inside this directory. Never touch `/repo` or `/verif` and do not read
  anything under `/verif`.
* Python: `/venv/bin/python`. Always run with `PYTHONPATH={wt}/src` so that YOUR copy is imported, e.g.
  `cd {wt} && PYTHONPATH={wt}/src /venv/bin/python -m pytest -q -p no:cacheprovider --deselect test/test_rendering.py`
  (70 tests must pass; the two tests in test/test_rendering.py fail at baseline and are ignored). There is no network.

## What kind of change is wanted (part A)

The change must NOT be exposed at once by ordinary use. It must need something specific to manifest, for example: a
multi-step history (evaluate, abandon, re-evaluate; two queries sharing a variable or an expression object), an unusual
but valid input (a particular class shape, value, domain kind, API spelling from the docs), a fault or exception at a
particular point, or two cooperating code sites that each look fine alone. A single wrong constant or flipped operator
that any query would reveal is not interesting.

For this round, look especially at: {focus}.

Ideas that earlier rounds already used for this property (choose a DIFFERENT mechanism and, if possible, a different
code location):
{taken}

## Deliverables (all inside `{wt}`)

1. The source change, left UNCOMMITTED in the worktree (so that `git -C {wt} diff -- src` shows it). Keep it small
   (ideally < 30 changed lines), in `src/` only. Do not edit tests.
2. `{wt}/demo.py`: a self-contained program using only the public API (`from entity_query_language import ...`) that
   checks the property on a concrete scenario against a plain-Python expectation, prints what it found, and exits with
   status 1 when the property is violated and 0 when it holds. It must exit 1 WITH your change and 0 WITHOUT it
   (verify both: `git diff -- src > /tmp/x_{pid}.diff; git apply -R /tmp/x_{pid}.diff; ...; git apply /tmp/x_{pid}.diff`).
   It must be deterministic.
3. `{wt}/NOTES.md`: what was changed, why it breaks the property, and exactly what is needed for it to manifest; and a
   section "Side observations on the unchanged source" with every finding of part B (a minimal reproduction each, what
   you expected by the property and what happened). Put the reproductions also into `{wt}/side_observations.py`, one
   function per observation, printing expected vs actual.

Before you finish, confirm: (a) the 70 tests pass with the change, (b) demo.py exits 1 with the change, (c) demo.py
exits 0 with the change reverted, (d) the change is still applied and uncommitted in the worktree. Report a short
summary (what, where, what it needs to manifest; the side observations).
'''

props = {json.loads(l)["id"]: json.loads(l) for l in open(os.path.join(HERE, "properties.jsonl"))}
for pid, p in props.items():
    wt = f"/tmp/r{ROUND}_{pid}"
    if not os.path.isdir(wt):
        print("no worktree", wt)
        continue
    taken = []
    for d in sorted(glob.glob(os.path.join(HERE, "seeded", pid + "_*"))):
        f = os.path.join(d, "NOTES.md")
        if os.path.exists(f):
            taken.append("* " + open(f).readline().strip("# \n"))
    open(os.path.join(wt, "TASK.md"), "w").write(TEMPLATE.format(pid=pid, title=p["title"], statement=p["statement"], wt=wt,
                                                                focus=FOCUS[pid], taken="\n".join(taken)))
    print("wrote", wt + "/TASK.md")
