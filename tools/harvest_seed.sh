#!/bin/bash
# harvest_seed.sh <CNN> <name>: confirm a sub-agent's property-breaking change in its scratch worktree /tmp/wt_<CNN>
# (suite still passes, demo fails with the change and passes without) and keep it as /verif/seeded/<name>/.
P="$1"; NAME="$2"; WT=${3:-/tmp/wt_$P}; OUT=/verif/seeded/$NAME
set -u
cd $WT || exit 2
git diff -- src > /tmp/harvest_$P.diff
[ -s /tmp/harvest_$P.diff ] || { echo "no source change in $WT"; exit 2; }
suite=$(PYTHONPATH=$WT/src /venv/bin/python -m pytest -q -p no:cacheprovider --timeout=900 --deselect test/test_rendering.py 2>&1 | tail -1)
PYTHONPATH=$WT/src timeout 300 /venv/bin/python demo.py > /tmp/harvest_$P.with 2>&1; with=$?
git apply -R /tmp/harvest_$P.diff
PYTHONPATH=$WT/src timeout 300 /venv/bin/python demo.py > /tmp/harvest_$P.without 2>&1; without=$?
git apply /tmp/harvest_$P.diff
echo "suite with change: $suite | demo with change: exit $with | demo without: exit $without"
case "$suite" in *"70 passed"*) ;; *) echo "REJECT: suite does not pass"; exit 1;; esac
[ $with -ne 0 ] && [ $without -eq 0 ] || { echo "REJECT: demo does not discriminate"; exit 1; }
mkdir -p $OUT
cp /tmp/harvest_$P.diff $OUT/patch.diff; cp demo.py $OUT/demo.py; [ -f NOTES.md ] && cp NOTES.md $OUT/NOTES.md
/venv/bin/python - "$P" "$OUT" "$suite" "$with" "$without" <<'PY'
import json,sys
p,out,suite,w,wo=sys.argv[1:]
json.dump({"property":p,"origin":"independent sub-agent given only the property text and a scratch worktree",
           "needs_to_manifest":"see NOTES.md","confirmed":{"repo_suite_with_change":suite,"demo_exit_with_change":int(w),"demo_exit_without_change":int(wo),
           "how":"tools/harvest_seed.sh: pytest in the worktree with PYTHONPATH=<worktree>/src; demo.py with the change and with the change reverse-applied (git apply -R)"}},
          open(out+"/meta.json","w"),indent=1)
PY
echo "kept as $OUT"
