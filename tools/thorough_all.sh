#!/bin/bash
# thorough_all.sh [seed]: every thorough command once, one after the other; prints one line per property.
cd "$(dirname "${BASH_SOURCE[0]}")/.."
for p in C20 C01 C02 C03 C04 C05 C06 C07 C08 C09 C10 C11 C12 C13 C14 C15 C16 C17 C18 C19; do
  s=$(date +%s); out="$(VERIF_SEED=${1:-1} EQLV_NO_EVIDENCE=1 ./check $p --tier thorough 2>&1)"; st=$?
  echo "== $p exit=$st $(( $(date +%s)-s ))s"; echo "$out" | grep -v "^KNOWN-FINDING" | tail -12 | cut -c1-700
done
