#!/bin/bash
# rebase_patch.sh <name>...: re-create seeded/mutant patches that no longer apply to /repo's HEAD: find the newest commit
# of /repo at which the patch applies, commit it there in a scratch clone, cherry-pick it onto HEAD (git merges the
# unrelated context changes) and write the new diff back.  Conflicts are listed for manual work.
HERE="$(cd "$(dirname "${BASH_SOURCE[0]}")/.." && pwd)"
RB=/tmp/eqlv_rebase; rm -rf $RB; git clone -q /repo $RB || exit 2
cd $RB; git config user.email x@y; git config user.name x
HEADC=$(git rev-parse HEAD)
for name in "$@"; do
  dir=$HERE/seeded/$name; [ -d "$dir" ] || dir=$HERE/mutants/$name
  pf=$dir/patch.diff
  git checkout -q -f $HEADC
  if git apply --check $pf 2>/dev/null; then echo "$name: applies already"; continue; fi
  found=""
  for c in $(git rev-list $HEADC); do
    git checkout -q -f $c
    if git apply --check $pf 2>/dev/null || patch -p1 --dry-run -s < $pf >/dev/null 2>&1; then found=$c; break; fi
  done
  if [ -z "$found" ]; then echo "$name: applies to no commit"; continue; fi
  (git apply $pf 2>/dev/null || patch -p1 -s < $pf) && git add -A && git commit -q -m "patch $name"
  pc=$(git rev-parse HEAD)
  git checkout -q -f $HEADC
  if git cherry-pick -n $pc >/dev/null 2>&1; then
    git diff --cached -- src > $pf.new
    if [ -s $pf.new ]; then mv $pf.new $pf; echo "$name: rebased from $(git rev-parse --short $found)"; else rm -f $pf.new; echo "$name: EMPTY after rebase (already in HEAD?)"; fi
    git reset -q --hard $HEADC
  else
    echo "$name: CONFLICT (base $(git rev-parse --short $found))"; git cherry-pick --abort 2>/dev/null; git reset -q --hard $HEADC
  fi
done
cd /; rm -rf $RB
