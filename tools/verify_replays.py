"""For every entry of known_findings.json: the stored replay must PASS on the current tree when the entry is 'fixed'
(and FAIL on the pinned tree given as argv[1], e.g. a worktree of 767ba7f), and must still FAIL when it is 'open'."""
import json, os, subprocess, sys
HERE = os.path.dirname(os.path.dirname(os.path.abspath(__file__)))
pristine = sys.argv[1] if len(sys.argv) > 1 else None
bad = 0
for k in json.load(open(os.path.join(HERE, "known_findings.json")))["findings"]:
    def run(src=None):
        env = dict(os.environ, EQLV_NO_EVIDENCE="1")
        if src:
            env["EQL_SRC"] = src
        return subprocess.run([os.path.join(HERE, "check"), k["property"], "--replay", os.path.join(HERE, k["replay"]), "--quiet"],
                              capture_output=True, text=True, env=env).returncode
    now = run()
    old = run(pristine) if pristine else None
    want_now = 0 if k["status"] == "fixed" else 1
    ok = now == want_now and (old in (None, 1) or bool(k.get("masked_on_pinned_tree")))
    bad += not ok
    print(f"{'ok ' if ok else 'BAD'} {k['id']:8} {k['property']} {k['status']:5} now={now} pinned={old} {k['replay']}")
sys.exit(1 if bad else 0)
