#!/bin/bash
# try_patch.sh <seeded-or-mutant-name> <CNN>... [-- extra env]: apply the patch to a scratch copy of /repo/src and run the given
# checks (quick tier, or TIER=thorough) against it; prints the status and the VIOLATION lines of each.
HERE="$(cd "$(dirname "${BASH_SOURCE[0]}")/.." && pwd)"; cd "$HERE"
name="$1"; shift
dir=seeded/$name; [ -d "$dir" ] || dir=mutants/$name
scratch="$(mktemp -d /tmp/eqlv_try_XXXXXX)"; mkdir -p "$scratch/src"; cp -r /repo/src/entity_query_language "$scratch/src/"
(cd "$scratch" && patch -p1 -s < "$HERE/$dir/patch.diff") || { echo "patch does not apply"; rm -rf "$scratch"; exit 2; }
for p in "$@"; do
  out="$(EQL_SRC="$scratch/src" EQLV_NO_EVIDENCE=1 EQLV_FOUND_DIR="$scratch/found" ./check "$p" --tier "${TIER:-quick}" 2>&1)"; st=$?
  echo "== $name / $p: exit $st"; echo "$out" | grep -A1 "^VIOLATION" | cut -c1-700 | head -${LINES_:-6}
done
rm -rf "$scratch"
