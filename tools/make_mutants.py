"""Create the hand-written sensitivity mutants under /verif/mutants/<name>/ (patch.diff + meta.json).

Each mutant is one realistic property-breaking edit of the current /repo tree; it is kept only if the repository's own
suite still passes with it (70 passed).  Run from /verif:  /venv/bin/python tools/make_mutants.py [name-substring]
"""
import json, os, shutil, subprocess, sys, tempfile

HERE = os.path.dirname(os.path.dirname(os.path.abspath(__file__)))
SRC = "/repo/src/entity_query_language"

M = []
def mut(name, prop, file, old, new, what, count=1):
    M.append(dict(name=name, prop=prop, file=file, old=old, new=new, what=what, count=count))

# ---- C01 / C03
mut("m01_inverse_table_lt", "C03", "symbolic.py", "operator.lt: operator.ge, operator.ge: operator.lt,",
    "operator.lt: operator.gt, operator.ge: operator.lt,", "inverse table: not_(a < b) becomes a > b instead of a >= b")
mut("m01_elseif_skips_right_when_left_empty", "C01", "symbolic.py",
    "            if not any_left:\n                right_prev = self.right._eval_parent_",
    "            if False and not any_left:\n                right_prev = self.right._eval_parent_",
    "ElseIf no longer evaluates its right side when the left side yields nothing")
mut("m03_not_and_wrong_dual", "C03", "symbolic.py", "        operand = ElseIf(Not(operand.left), Not(operand.right))",
    "        operand = AND(Not(operand.left), Not(operand.right))", "De Morgan with the wrong dual: not(a and b) -> not a and not b")
mut("m03_mapping_ignores_invert", "C03", "symbolic.py",
    "                elif (not self._invert_ and v.value) or (self._invert_ and not v.value):\n                    is_false = False",
    "                elif v.value:\n                    is_false = False", "a negated boolean attribute/call is not inverted")
# ---- C02
mut("m02_dedup_on_first_required_var", "C02", "symbolic.py",
    "        required_output = {k: v for k, v in output.items() if k in required_vars}\n        if not required_output:\n            return False\n        # Use a per-parent",
    "        required_output = {k: v for k, v in output.items() if k in required_vars}\n        required_output = dict(list(required_output.items())[:1])\n        if not required_output:\n            return False\n        # Use a per-parent",
    "duplicate detection keyed on one required variable only: rows that differ in another variable are dropped")
mut("m02_selected_vars_zip", "C02", "symbolic.py",
    "            for var_val in var._evaluate__(copy(bindings)):\n                new_bindings = copy(bindings)\n                new_bindings.update(var_val)\n                yield from self._bind_selected_variables_(remaining_vars, new_bindings)",
    "            for var_val in var._evaluate__(copy(bindings)):\n                new_bindings = copy(bindings)\n                new_bindings.update(var_val)\n                yield from self._bind_selected_variables_(remaining_vars, new_bindings)\n                if remaining_vars and len(bindings) == 0:\n                    break",
    "an unconstrained selected variable followed by another one only takes its first value when nothing is bound yet")
# ---- C04
mut("m04_an_no_reset_on_abandon", "C04", "symbolic.py",
    "                yield result\n        finally:\n            # also when the consumer stops early or user code raised, otherwise the next evaluation starts from\n            # the duplicate tracking state of the abandoned one.\n            self._reset_cache_()",
    "                yield result\n            self._reset_cache_()\n        finally:\n            pass", "An.evaluate resets its state only after normal completion (and, since 9e07117, when the next evaluation starts)")
mut("m04_coverage_on_entry", "C04", "cache_data.py",
    "            # Only an empty constraint covers the empty assignment; coverage is recorded by `add` once it is known.\n            return False",
    "            self.all_seen = True\n            self.seen.append(assignment)\n            return False",
    "coverage of the empty lookup recorded when an operator is entered (abandoned evaluation leaves a 'complete' cache)")
# ---- C05
mut("m05_check_without_key_filter", "C05", "cache_data.py",
    "        assignment = {k: v for k, v in assignment.items() if k in self.keys}\n        seen = self.seen_set.check(assignment)",
    "        seen = self.seen_set.check(assignment)", "IndexedCache.check no longer restricts the lookup to the cache keys (harmless alone)")
mut("m05_cache_stores_wrong_truth", "C05", "symbolic.py",
    "        cache.insert({k: v for k, v in values.items() if k in cache.keys}, output=self._is_false_)",
    "        cache.insert({k: v for k, v in values.items() if k in cache.keys}, output=False)",
    "the result cache stores every output as true: false bindings forwarded by an or/not come back as true on a cache hit")
mut("m05_mark_complete_partial", "C05", "cache_data.py",
    "        if not any(k in assignment for k in self.keys):\n            self.seen_set.add({})",
    "        self.seen_set.add({k: v for k, v in assignment.items() if k in self.keys[:1]})",
    "completion is recorded for the first key only: a later binding that differs in another key is answered from an incomplete cache")
# ---- C06
mut("m06_the_first_solution", "C06", "symbolic.py",
    "            else:\n                raise MultipleSolutionFound(result, sol)",
    "            else:\n                if len(sol) > 3:\n                    continue\n                raise MultipleSolutionFound(result, sol)",
    "the(...) ignores further solutions whose binding has more than 3 entries (returns the first instead of raising)")
# ---- C07
mut("m07_domain_materialised", "C07", "hashed_data.py",
    "            self.iterable = self._hashing_(iterable)\n\n    @staticmethod",
    "            self.iterable = self._hashing_(list(iterable))\n\n    @staticmethod",
    "set_iterable materialises the supplied iterable with list() (the whole one-shot domain is pulled at declaration... lazily at first use)")
mut("m07_type_filter_eager", "C07", "predicate.py",
    "        domain = From(filter(lambda v: isinstance(v, symbolic_cls), domain.domain))",
    "        domain = From([v for v in domain.domain if isinstance(v, symbolic_cls)])",
    "the type filter over a supplied domain became a list comprehension: the iterator is drained when the variable is declared")
# ---- C08
mut("m08_mode_restored_to_none", "C08", "symbolic.py",
    "            SymbolicExpression._symbolic_expression_stack_ = prev_stack\n        _set_symbolic_mode(prev_mode)",
    "            SymbolicExpression._symbolic_expression_stack_ = prev_stack\n        _set_symbolic_mode(None if mode == EQLMode.Rule else prev_mode)",
    "leaving a rule_mode block resets the mode to None instead of the enclosing block's mode")
mut("m08_guard_removed_from_le", "C08", "symbolic.py",
    "        self._if_not_in_symbolic_mode_raise_error_('__le__')\n", "", "the symbolic-mode guard of <= was removed")
# ---- C09
mut("m09_an_evaluates_in_ambient_mode", "C09", "symbolic.py",
    "                with symbolic_mode(mode=None):\n                    try:\n                        result = self._process_result_(next(results))",
    "                with symbolic_mode(mode=None if not in_symbolic_mode(EQLMode.Rule) else EQLMode.Rule):\n                    try:\n                        result = self._process_result_(next(results))",
    "An.evaluate keeps rule mode on while computing results when called inside a rule_mode block")
# ---- C10
mut("m10_forall_checks_first_two_values", "C10", "symbolic.py",
    "                    candidates = [c for c in candidates if self._holds_({**universal_context, **c})]\n",
    "                    candidates = [c for c in candidates if checked >= 2 or self._holds_({**universal_context, **c})]\n                checked = locals().get('checked', 0) + 1\n",
    "for_all only checks the first three universal values")
mut("m10_forall_no_reset_between_values", "C10", "symbolic.py",
    "        self.condition._reset_cache_()\n        self.condition._eval_parent_ = self\n        for _ in self.condition._evaluate__(context):",
    "        self.condition._eval_parent_ = self\n        for _ in self.condition._evaluate__(context):",
    "for_all re-evaluates its condition without resetting the duplicate tracking: a same-variable disjunction is suppressed on the 2nd value")
# ---- C11
mut("m11_args_independent", "C11", "symbolic.py",
    "            for value in var._evaluate__(copy(bindings)):\n                new_bindings = copy(bindings)\n                new_bindings.update(value)\n                yield from self._bind_child_vars_(remaining_child_vars, new_bindings, {**kwargs, name: value})",
    "            for value in var._evaluate__(copy(bindings)):\n                yield from self._bind_child_vars_(remaining_child_vars, bindings, {**kwargs, name: value})",
    "constructor arguments are evaluated independently again (fields of different assignments can mix)")
# ---- C12
mut("m12_exceptif_keeps_left_conclusion", "C12", "conclusion_selector.py",
    "                right_yielded = True\n                self._conclusion_.update(self.right._conclusion_)",
    "                right_yielded = True\n                self._conclusion_.update(self.right._conclusion_)\n                if len(left_value) > 6:\n                    self._conclusion_.update(self.left._conclusion_)",
    "ExceptIf also keeps the refined conclusion when the refinement fired (for larger bindings)")
mut("m12_refinement_not_relinked_on_left", "C12", "rule.py",
    "        if parent.left is old_operand:\n            parent.left = new_operand\n        elif parent.right is old_operand:",
    "        if parent.right is old_operand:", "refinement declared after an alternative is not linked in (only right-side operands are replaced)")
# ---- C13
mut("m13_exact_type_filter", "C13", "predicate.py",
    "        domain = From(filter(lambda v: isinstance(v, symbolic_cls), domain.domain))",
    "        domain = From(filter(lambda v: type(v) is symbolic_cls or type(v).__mro__[1] is symbolic_cls, domain.domain))",
    "the type filter accepts the class and its direct subclasses only (grandchildren are dropped)")
mut("m13_only_first_two_properties", "C13", "symbolic.py",
    "        conditions = [getattr(var, k) == v for k, v in properties.items()]",
    "        conditions = [getattr(var, k) == v for k, v in list(properties.items())[:3]]",
    "only the first three field constraints of a predicate-form term are honoured")
# ---- C14
mut("m14_registry_direct_subclasses_only", "C14", "cache_data.py",
    "        cache_keys = [t for t in cache.keys() if isinstance(t, type) and issubclass(t, clazz)]",
    "        cache_keys = [t for t in cache.keys() if isinstance(t, type) and (t is clazz or clazz in t.__bases__)]",
    "a domain-less variable only sees instances of the class and of its direct subclasses")
mut("m14_symbolic_construction_registers", "C14", "predicate.py",
    "        if in_symbolic_mode():\n            return symbolic_new(symbolic_cls, *args, **kwargs)",
    "        if in_symbolic_mode():\n            if in_symbolic_mode(EQLMode.Rule) and not args and not kwargs:\n                Variable._cache_[symbolic_cls].insert({}, HashedValue(object.__new__(symbolic_cls)), index=False)\n            return symbolic_new(symbolic_cls, *args, **kwargs)",
    "constructing a class without arguments inside rule_mode registers a blank instance")
# ---- C15
mut("m15_an_not_reexported", "C15", "symbolic.py",
    "                    if self._var_:\n                        value.update({self._id_: value[self._var_._id_]})\n                    yield value",
    "                    yield value", "a nested an(...) no longer re-exports its solution under its own id")
# ---- C16
mut("m16_flatten_inherits_parent_id", "C16", "symbolic.py",
    "        for inner_v in inner_iter:\n            yield HashedValue(inner_v)",
    "        for inner_v in inner_iter:\n            yield HashedValue(id_=value.id_, value=inner_v)",
    "flattened elements carry the hash id of their parent collection")
# ---- C17
mut("m17_concatenate_appends", "C17", "symbolic.py",
    "                        all_values[self._id_].extend(child_v_unwrapped)",
    "                        all_values[self._id_].extend(x for x in child_v_unwrapped if x not in all_values[self._id_])",
    "concatenate drops elements that are already in the combined list")
# ---- C18
mut("m18_or_always_union", "C18", "symbolic.py",
    "    if left_vars == right_vars:\n        return ElseIf(left, right)",
    "    if left_vars == right_vars and len(left_vars) < 2:\n        return ElseIf(left, right)",
    "a same-variable disjunction over two variables is built as a Union")
mut("m18_first_operand_by_declaration", "C18", "symbolic.py",
    "        if sources and any(v.value._var_._id_ in sources for v in self.right._unique_variables_):\n            return self.right, self.left",
    "        if sources and any(v.value._var_._id_ in sources for v in self.right._unique_variables_) \\\n                and self.right._id_ < self.left._id_:\n            return self.right, self.left",
    "the comparator enumerates its bound operand first only when it was created first")
# ---- C19
mut("m19_index_truthiness", "C19", "symbolic.py",
    "                if not is_condition:\n                    # Used as a value",
    "                if not is_condition and not (isinstance(self, Index) and not v.value):\n                    # Used as a value",
    "indexed values (x.tags[0], x.d['p']) are filtered by truthiness again")
# ---- C20
mut("m20_retrieve_skips_wildcard_when_concrete", "C20", "cache_data.py",
    "            if wildcard is not _ABSENT:\n                yield from self._yield_result(assignment, wildcard, key_idx, copy(result))",
    "            if wildcard is not _ABSENT and concrete is _ABSENT:\n                yield from self._yield_result(assignment, wildcard, key_idx, copy(result))",
    "retrieve prefers the concrete branch and skips the wildcard branch when both exist")
mut("m20_seen_reverse_inclusion", "C20", "cache_data.py",
    "            if all(assignment[k] == v if k in assignment else False for k, v in constraint.items()):",
    "            if all(constraint[k] == v if k in constraint else len(constraint) > 1 for k, v in assignment.items()):",
    "coverage check tests (almost) the reverse inclusion")

flt = sys.argv[1] if len(sys.argv) > 1 else ""
for m in M:
    if flt not in m["name"]:
        continue
    out = os.path.join(HERE, "mutants", m["name"])
    scratch = tempfile.mkdtemp(prefix="eqlv_mut_", dir="/tmp")
    try:
        shutil.copytree("/repo/src", os.path.join(scratch, "a", "src"))
        shutil.copytree("/repo/src", os.path.join(scratch, "b", "src"))
        shutil.copytree("/repo/test", os.path.join(scratch, "b", "test"))
        f = os.path.join(scratch, "b", "src", "entity_query_language", m["file"])
        s = open(f).read()
        if s.count(m["old"]) != m["count"]:
            print(f"{m['name']}: anchor found {s.count(m['old'])} times - SKIPPED"); continue
        open(f, "w").write(s.replace(m["old"], m["new"]))
        r = subprocess.run(["/venv/bin/python", "-m", "pytest", "-q", "-p", "no:cacheprovider", "--timeout=900", "-x",
                            "--deselect", "test/test_rendering.py"], cwd=os.path.join(scratch, "b"),
                           env={**os.environ, "PYTHONPATH": os.path.join(scratch, "b", "src")}, capture_output=True, text=True)
        tail = r.stdout.strip().splitlines()[-1] if r.stdout.strip() else r.stderr[-200:]
        if "70 passed" not in tail:
            print(f"{m['name']}: repo suite does not pass with it ({tail}) - SKIPPED"); continue
        d = subprocess.run(["diff", "-ru", "a/src", "b/src"], cwd=scratch, capture_output=True, text=True).stdout
        d = d.replace("--- a/src", "--- a/src").replace("+++ b/src", "+++ b/src")
        os.makedirs(out, exist_ok=True)
        open(os.path.join(out, "patch.diff"), "w").write(d)
        meta = {"property": m["prop"], "what": m["what"], "origin": "hand-written mutant (tools/make_mutants.py)", "suite": tail}
        try:        # (notes added by hand - selftest: skip..., detected_by - survive a regeneration)
            prev = json.load(open(os.path.join(out, "meta.json")))
            meta.update({k: v for k, v in prev.items() if k in ("selftest", "detected_by", "detected_by_note")})
        except (OSError, ValueError):
            pass
        json.dump(meta, open(os.path.join(out, "meta.json"), "w"), indent=1)
        print(f"{m['name']}: ok ({tail})")
    finally:
        shutil.rmtree(scratch, ignore_errors=True)
