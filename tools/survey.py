"""Development aid: run N generated cases of a property without stopping at failures; print failure kinds."""
import sys, json, os
sys.path.insert(0, os.path.dirname(os.path.dirname(os.path.abspath(__file__))))
from collections import Counter
import hypothesis
from hypothesis import given, settings, HealthCheck, Phase
from eqlv import runner
pid, n = sys.argv[1], int(sys.argv[2])
seed = int(sys.argv[3]) if len(sys.argv) > 3 else 1
prop = runner.load_prop(pid)
kinds = Counter(); ex = {}; tot = [0]
@hypothesis.seed(seed)
@settings(max_examples=n, database=None, deadline=None, phases=[Phase.generate], suppress_health_check=list(HealthCheck))
@given(prop.strategy("quick"))
def t(case):
    import faulthandler; faulthandler.dump_traceback_later(120, exit=True)
    json.dump(case, open('/tmp/survey_current_case.json', 'w'))
    out = runner.run_case(prop, case)
    tot[0] += 1
    if not out.ok:
        key = out.kind + " " + ",".join(f for f in out.features if f in ("or_diff_vars","or_same_vars","not","pred","and_right_or","unconstrained_var","self_join","no_cond","empty_domain", "not_under_not") or f.startswith(("ref_","alt_","caching_")))
        if isinstance(case, dict) and case.get("prelude") is not None:
            key += " PRELUDE"
        if runner.attribute(pid, out):
            key += " [attributed " + runner.attribute(pid, out) + "]"
        kinds[key] += 1
        size = len(json.dumps(case))
        if key not in ex or size < ex[key][0]:
            ex[key] = (size, case, out.detail)
t()
print("total", tot[0], "failures", sum(kinds.values()))
os.makedirs("/tmp/survey_dump", exist_ok=True)
for i, (k, v) in enumerate(kinds.most_common()):
    print(v, k)
    json.dump({"property": pid, "case": ex[k][1], "kind": k, "detail": ex[k][2], "features": [], "seed": seed, "tier": "quick"},
              open(f"/tmp/survey_dump/{pid}_{i}.json", "w"))
    r = prop.render(ex[k][1]) if hasattr(prop, "render") else ex[k][1]
    print("    ", json.dumps({kk: r[kk] for kk in r if kk in ("cond","select","doms","vars","prelude")}) if isinstance(r, dict) else r, "|", ex[k][2][:200])
