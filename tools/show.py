import json,sys
for p in sys.argv[1:]:
    d=json.load(open(p))
    print("==",p); print(d["kind"],":",d["detail"][:400]); print(json.dumps(d["rendered"],indent=1))
