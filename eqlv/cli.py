"""Command line of the harness:  check <ID> [--tier quick|thorough] [--replay FILE] [--quiet]"""
from __future__ import annotations

import argparse
import os
import sys
import traceback

from .env import HarnessError


def main(argv=None) -> int:
    ap = argparse.ArgumentParser(prog="check")
    ap.add_argument("property")
    ap.add_argument("--tier", default=os.environ.get("VERIF_TIER", "quick"), choices=["quick", "thorough"])
    ap.add_argument("--replay")
    ap.add_argument("--quiet", action="store_true")
    a = ap.parse_args(argv)
    pid = a.property.upper()
    try:
        seed = int(os.environ.get("VERIF_SEED", "1") or "1")
    except ValueError:
        seed = 1
    try:
        from . import runner
        if a.replay:
            out = runner.replay_file(pid, a.replay)
            if out.ok:
                if not a.quiet:
                    print(f"replay {a.replay}: property {pid} holds on this case")
                return 0
            print(f"VIOLATION property={pid} replay={a.replay}")
            if not a.quiet:
                print(f"  {out.kind}: {out.detail}")
            return 1
        return runner.run_property(pid, a.tier, seed)
    except HarnessError as e:
        print(f"HARNESS-ERROR {pid}: {e}", file=sys.stderr)
        return 2
    except Exception:
        traceback.print_exc()
        print(f"HARNESS-ERROR {pid}: unexpected exception in the harness", file=sys.stderr)
        return 2


if __name__ == "__main__":
    sys.exit(main())
