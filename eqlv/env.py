"""Locating the code under test and isolating cases from each other.

The harness always imports entity_query_language from the *current working tree* of the
repository (``/repo/src``).  ``EQL_SRC`` overrides the location; that is used only by the
mutant self-test (``/verif/selftest``), never by a registered check.
"""
from __future__ import annotations

import gc
import os
import sys

VERIF_DIR = os.path.dirname(os.path.dirname(os.path.abspath(__file__)))
EQL_SRC = os.environ.get("EQL_SRC", "/repo/src")

_imported = False
_trims = 0


def import_eql():
    """Put the tree under test first on sys.path and import the package (idempotent)."""
    global _imported
    if _imported:
        return
    if not os.path.isdir(os.path.join(EQL_SRC, "entity_query_language")):
        raise HarnessError(f"no entity_query_language package under {EQL_SRC}")
    sys.path.insert(0, EQL_SRC)
    import entity_query_language  # noqa: F401
    got = os.path.dirname(os.path.abspath(entity_query_language.__file__))
    want = os.path.join(os.path.abspath(EQL_SRC), "entity_query_language")
    if os.path.realpath(got) != os.path.realpath(want):
        raise HarnessError(f"imported entity_query_language from {got}, expected {want}")
    import logging
    entity_query_language.logger.setLevel(logging.CRITICAL)   # keep the library's advisory warnings out of the check output
    _imported = True


class HarnessError(Exception):
    """A problem of the harness itself (exit status 2, never a VIOLATION)."""


def reset_eql_state() -> int:
    """Bring the library's process-global state back to its initial value.

    Returns the number of items that actually had to be reset (state that the previous
    case leaked).  Called at the top of every case so that one case can never poison the
    next one; the count is reported in evidence as ``state_bleed_resets``.
    """
    import_eql()
    from entity_query_language import symbolic as S
    from entity_query_language import cache_data as C
    leaked = 0
    if S.in_symbolic_mode():
        S._set_symbolic_mode(None)
        leaked += 1
    if S.SymbolicExpression._symbolic_expression_stack_:
        del S.SymbolicExpression._symbolic_expression_stack_[:]
        leaked += 1
    if not C.is_caching_enabled():
        C.enable_caching()
    # the repo's own idiom (test/conftest.py) for clearing the instance registry
    for c in S.Variable._cache_.values():
        c.clear()
    S.Variable._cache_.clear()
    return leaked


def trim_eql_memory():
    """Drop the library's ever-growing global maps between cases (harness hygiene only)."""
    from entity_query_language import symbolic as S
    global _trims
    S.SymbolicExpression._id_expression_map_.clear()
    _trims += 1
    if _trims % 500 == 0:
        gc.collect()
