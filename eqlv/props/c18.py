"""C18 - meaning-preserving rewrites of a query do not change its result set.

Generator : a base query from the multi-variable grammar (C02), then 1-4 rewrites drawn by Hypothesis and applied to
            the AST: swap operands of and/or; re-associate / flatten / regroup chains (and_(a,b,c) <-> a & (b & c) <->
            several conditions passed to the descriptor); mirror a comparison (a < b <-> b > a, literal on the other
            side); contains(c, i) <-> in_(i, c); permute the order in which variables are declared; permute the
            selection; permute the elements of every domain.  Both variants are built freshly.
Oracle    : metamorphic - equal result SETS, rows keyed by variable role (not by position); 3-way with the reference.
"""
from __future__ import annotations

import copy
import json

from hypothesis import strategies as st

from .. import ast as A
from ..runner import Outcome, fail, open_features
from ..strategies import Cfg, query_case, chance
from ..world import build_entities
from ..qcheck import reference_rows, run_query, case_features, render_query, ident, show_rows

ID = "C18"
TITLE = "Meaning-preserving rewrites of a query do not change its result set"
TECHNIQUE = "metamorphic property-based testing (Hypothesis): original vs rewritten query, plus reference evaluator"
RULE = ("cases = (base query, rewritten query) where the rewrite is a composition of 1-4 of: operand swap, "
        "re-association/flattening/top-level splitting, comparison mirroring, contains<->in_, variable declaration "
        "order, selection order, domain element order; result sets (rows keyed by role) must be equal and equal to the "
        "reference. Non-trivial = the rewritten case differs structurally from the base and the result is non-empty; "
        "distinct = distinct canonical JSON of the pair.")
BUDGET = {"quick": (8, 1000), "thorough": (16, 6000)}
ASSUMPTIONS = ["both variants are built from the AST as fresh expressions over fresh variables"]


def _cfg(tier):
    avoid = open_features()
    return Cfg(nvars=(1, 3), pool=(2, 5), dom=(1, 3), max_product=27,
               profile="falsy" if "falsy_values" not in avoid else "clean", max_depth=3,
               allow_nested_not="not_under_not" not in avoid, allow_empty_cond=False,
               select="any", desc=("entity", "set_of"), force_relate=True, noise=False,
               dom_kinds=("list", "tuple"), avoid=frozenset(avoid), kw_vars=(1, 6),
               extra_templates=("and_right_nested_cross",) * 3 + ("and_left_or_then_other",) * 6)


# ---- rewrites (all choices drawn through Hypothesis) -----------------------------------------------

def _map(c, fn):
    """Rebuild bottom-up applying fn to every node."""
    k = c[0]
    if k in ("and", "or"):
        c = [k, c[1], [_map(x, fn) for x in c[2]]]
    elif k == "not":
        c = ["not", c[1], _map(c[2], fn)]
    elif k == "sub":
        c = ["sub", c[1], c[2], _map(c[3], fn)]
    return fn(c)


def rw_swap(draw, c):
    def f(n):
        if n[0] in ("and", "or"):
            return [n[0], n[1], list(draw(st.permutations(n[2])))]
        return n
    return _map(c, f)


def rw_form(draw, c):
    def f(n):
        if n[0] in ("and", "or"):
            return [n[0], draw(st.sampled_from(["nary", "binl", "binr"])), n[2]]
        return n
    return _map(c, f)


def rw_regroup(draw, c):
    def f(n):
        if n[0] in ("and", "or"):
            kids = []
            for x in n[2]:
                if x[0] == n[0] and draw(st.booleans()):
                    kids.extend(x[2])          # flatten a nested chain of the same connective
                else:
                    kids.append(x)
            if len(kids) >= 3 and draw(st.booleans()):
                i = draw(st.integers(0, len(kids) - 2))   # group two adjacent operands
                kids = kids[:i] + [[n[0], draw(st.sampled_from(["nary", "binl"])), kids[i:i + 2]]] + kids[i + 2:]
            return [n[0], n[1], kids]
        return n
    return _map(c, f)


def rw_mirror(draw, c):
    def f(n):
        if n[0] == "cmp" and draw(st.booleans()):
            if n[2][0] == "const" and n[3][0] == "const":
                return n
            return ["cmp", A.MIRROR[n[1]], n[3], n[2]]
        return n
    return _map(c, f)


def rw_inform(draw, c):
    def f(n):
        if n[0] == "in" and draw(st.booleans()):
            return ["in", "contains" if n[1] == "in_" else "in_", n[2], n[3]]
        return n
    return _map(c, f)


def _rename_term(t, pi):
    if t[0] == "var":
        return ["var", pi[t[1]]]
    if t[0] == "const":
        return t
    if t[0] == "pcall":
        return ["pcall", t[1], [_rename_term(a, pi) for a in t[2]]]
    return [t[0], _rename_term(t[1], pi)] + t[2:]


def _rename_cond(c, pi):
    k = c[0]
    if k == "cmp":
        return ["cmp", c[1], _rename_term(c[2], pi), _rename_term(c[3], pi)]
    if k == "in":
        return ["in", c[1], _rename_term(c[2], pi), _rename_term(c[3], pi)]
    if k == "truth":
        return ["truth", _rename_term(c[1], pi)]
    if k in ("fpred", "cpred"):
        return [k, c[1], [_rename_term(a, pi) for a in c[2]]]
    if k == "hastype":
        return ["hastype", _rename_term(c[1], pi), c[2]] + c[3:]
    if k == "const":
        return c
    if k in ("and", "or"):
        return [k, c[1], [_rename_cond(x, pi) for x in c[2]]]
    if k == "not":
        return ["not", c[1], _rename_cond(c[2], pi)]
    if k == "forall":
        return ["forall", pi[c[1]], _rename_cond(c[2], pi)]
    if k == "sub":
        return ["sub", c[1], [pi[v] for v in c[2]], _rename_cond(c[3], pi)]
    raise ValueError(c)


@st.composite
def _pair(draw, tier):
    base = draw(query_case(_cfg(tier)))
    if chance(draw, 1, 4):
        # part of the condition wrapped as a nested sub-query (C15 says it means the same)
        c = base["cond"]
        nv = len(base["vars"])
        v = draw(st.integers(0, nv - 1))
        if c[0] in ("and", "or") and draw(st.booleans()):
            i = draw(st.integers(0, len(c[2]) - 1))
            kids = list(c[2])
            if kids[i][0] != "const":
                kids[i] = ["sub", "entity", [v], kids[i]]
            base["cond"] = [c[0], c[1], kids]
        elif not A.has_kind(c, "const"):
            base["cond"] = ["sub", "entity", [v], c]
    if len(base["vars"]) <= 2 and not base.get("earlier_queries_sharing_comparisons") and chance(draw, 1, 8):
        # a universally quantified operand next to the drawn condition: or_(for_all(u, c(x, u)), d) / and_(d, for_all(u, c))
        from ..strategies import Ctx, leaf
        n_ = len(base["ents"])
        ents_ok = [i for i, r in enumerate(base["ents"]) if r.get("cls") not in ("Other", "Foreign")]
        if ents_ok:
            u = len(base["vars"])
            base["doms"].append(list(draw(st.permutations(ents_ok)))[:draw(st.integers(1, min(3, len(ents_ok))))])
            base["vars"].append({"dom": len(base["doms"]) - 1, "decl": "let", "type": "Ent"})
            ctx_ = Ctx(_cfg(tier), base["ents"], u + 1)
            x_ = draw(st.integers(0, u - 1))
            fa = ["forall", u, leaf(draw, ctx_, [x_, u])]
            parts = [fa, base["cond"]] if draw(st.booleans()) else [base["cond"], fa]
            base["cond"] = [draw(st.sampled_from(["or", "or", "and"])), "nary", parts]
            base["split_top"] = False
            base["has_forall"] = True
    var = copy.deepcopy(base)
    names = []
    sel_map = list(range(len(base["sel"])))       # variant position -> base position
    for _ in range(draw(st.integers(1, 4))):
        rw = draw(st.sampled_from(["swap", "swap", "form", "regroup", "mirror", "inform", "split", "declorder",
                                   "selorder", "domorder"]))
        names.append(rw)
        if rw == "swap":
            var["cond"] = rw_swap(draw, var["cond"])
        elif rw == "form":
            var["cond"] = rw_form(draw, var["cond"])
        elif rw == "regroup":
            var["cond"] = rw_regroup(draw, var["cond"])
        elif rw == "mirror":
            var["cond"] = rw_mirror(draw, var["cond"])
        elif rw == "inform":
            var["cond"] = rw_inform(draw, var["cond"])
        elif rw == "split":
            var["split_top"] = not var.get("split_top")
        elif rw == "declorder":
            n = len(var["vars"])
            order = list(draw(st.permutations(list(range(n)))))     # new position i holds old variable order[i]
            pi = {old: new for new, old in enumerate(order)}
            var["vars"] = [var["vars"][old] for old in order]
            var["cond"] = _rename_cond(var["cond"], pi)
            var["sel"] = [_rename_term(t, pi) for t in var["sel"]]
        elif rw == "selorder" and var["desc"] == "set_of":
            order = list(draw(st.permutations(list(range(len(var["sel"]))))))
            var["sel"] = [var["sel"][i] for i in order]
            sel_map = [sel_map[i] for i in order]
        elif rw == "domorder":
            var["doms"] = [list(draw(st.permutations(d))) for d in var["doms"]]
    if chance(draw, 1, 4):
        # both formulations are preceded by earlier queries over the same variables that contain comparison leaves of the
        # formulation as the SAME objects (small = x.a < 3; first = an(entity(x, or_(small, red))); then and_(small, heavy)
        # in one formulation, and_(heavy, small) in the other)
        from ..strategies import Ctx, earlier_queries_sharing_comparisons
        for side in (base, var):
            e = earlier_queries_sharing_comparisons(draw, Ctx(_cfg(tier), side["ents"], len(side["vars"])), side["cond"])
            if e:
                side["earlier_queries_sharing_comparisons"] = e
                side["all_queries_built_before_any_is_evaluated"] = False
    return {"base": base, "variant": var, "sel_map": sel_map, "rewrites": names}


def strategy(tier):
    return _pair(tier)


def check(case) -> Outcome:
    base, var, sel_map = case["base"], case["variant"], case["sel_map"]
    feats = case_features(base) + ["rw_" + r for r in sorted(set(case["rewrites"]))]
    objs = build_entities(base["ents"])
    expected, n_sat, n_all = reference_rows(base, objs)
    changed = json.dumps(base, sort_keys=True) != json.dumps(var, sort_keys=True)
    nontrivial = changed and n_sat > 0
    classes = ["rw_" + r for r in sorted(set(case["rewrites"]))] + [f for f in feats if f in ("vars1", "vars2", "vars3",
                                                                                             "or_diff_vars", "not",
                                                                                             "comparison_objects_used_in_earlier_queries")]
    if base.get("has_forall"):
        classes.append("universally_quantified_operand")
        feats.append("universally_quantified_operand_under_" + base["cond"][0])
    try:
        got_b, _ = run_query(base, objs, times=2)
    except Exception as e:
        return fail("exception_base", f"{type(e).__name__}: {e}", nontrivial=nontrivial, classes=classes, features=feats)
    objs2 = build_entities(var["ents"])
    try:
        got_v, _ = run_query(var, objs2, times=2)
    except Exception as e:
        return fail("exception_variant", f"{type(e).__name__}: {e}; base gave {got_b}", nontrivial=nontrivial,
                    classes=classes, features=feats)
    # bring variant rows into base selection order and base object identities
    back = {id(o2): o1 for o1, o2 in zip(objs, objs2)}
    inv = [sel_map.index(i) for i in range(len(sel_map))]
    got_v2 = [tuple(back.get(id(r[inv[i]]), r[inv[i]]) for i in range(len(inv))) for r in got_v]
    sb, sv, se = {ident(r) for r in got_b}, {ident(r) for r in got_v2}, {ident(r) for r in expected}
    if sb != sv:
        which = "base" if sb != se else "variant"
        return fail("rewrite_changes_result", f"rewrites {case['rewrites']}: base {show_rows(got_b)} vs rewritten "
                                              f"{show_rows(got_v2)} (reference {show_rows(expected)}; the {which} is wrong)",
                    nontrivial=nontrivial, classes=classes, features=feats)
    if sb != se:
        return fail("both_differ_from_reference", f"base and rewritten agree on {show_rows(got_b)} but the reference is "
                                                  f"{show_rows(expected)}", nontrivial=nontrivial, classes=classes,
                    features=feats)
    return Outcome(True, nontrivial=nontrivial, classes=classes, features=feats)


def render(case):
    return {"base": render_query(case["base"]), "rewrites": case["rewrites"],
            "rewritten": {k: v for k, v in render_query(case["variant"]).items() if k in ("vars", "doms", "cond", "split_top", "select")}}
