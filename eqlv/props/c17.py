"""C17 - concatenate yields a single value: all inner elements, in order.

Generator : a non-empty parent domain whose inner collections are p.kids (entities; empty, overlapping, repeated elements)
            or p.tags (ints) or the scalar p.a; query an(entity(concatenate(p.<inner>))); membership queries with an outer
            variable d over a domain mixing members and non-members: in_(d, c), contains(c, d) and their not_.
Oracle    : the result is exactly one row, equal AS A LIST BY IDENTITY to [x for p in parents for x in inner(p)] (order,
            multiplicity); membership: [o for o in outer if o in flat] and its complement, in domain order.
"""
from __future__ import annotations

from hypothesis import strategies as st

from .. import ast as A
from ..runner import Outcome, fail, open_features
from ..strategies import Cfg, draw_dataset, chance, PROFILES
from ..world import build_entities, CLASSES
from ..build import declare_vars, build_cond
from ..qcheck import ident, show_rows, var_domains, compare_lists, compare_sets

from entity_query_language import an, entity, set_of, symbolic_mode, concatenate, in_, contains, not_, let

ID = "C17"
TITLE = "concatenate yields a single value: all inner elements, in order"
TECHNIQUE = "property-based testing (Hypothesis) against a flat-list reference (ordered, by identity)"
RULE = ("cases = (non-empty parent domain with inner collections incl. empty / overlapping / repeated / scalar, outer domain "
        "mixing members and non-members, membership spelling in_|contains, negated or not) drawn by Hypothesis; the single "
        "concatenated value and the membership selections are compared as ordered lists by identity. Non-trivial = >= 2 "
        "parents, an element occurring twice in the concatenation, and the outer domain has both members and non-members; "
        "distinct = canonical JSON.")
BUDGET = {"quick": (4, 400), "thorough": (16, 4000)}
ASSUMPTIONS = ["the parent domain is non-empty"]


@st.composite
def _case(draw, tier):
    avoid = open_features()
    cfg = Cfg(profile="falsy" if "falsy_values" not in avoid else "clean", pool=(2, 6), noise=False)
    recs = draw_dataset(draw, cfg)
    n = len(recs)
    # ("rows": concatenate(flatten(p.rows())) - the flattened elements are collections themselves)
    inner = draw(st.sampled_from(["kids", "kids", "kids", "tags", "a", "s", "o", "o", "rows"]))
    if inner == "kids" and chance(draw, 1, 3):
        r = recs[draw(st.integers(0, n - 1))]
        if r["kids"]:
            r["kids"] = r["kids"] + [r["kids"][0]]
    if inner == "kids" and chance(draw, 1, 8):
        for r in recs:
            r["kids"] = []         # all inner collections empty
    parents = list(draw(st.permutations(list(range(n))))[:draw(st.integers(1, min(4, n)))])
    outer = list(draw(st.permutations(list(range(n))))[:draw(st.integers(1, n))])
    return {"ents": recs, "doms": [parents, outer], "vars": [{"dom": 0, "decl": draw(st.sampled_from(["let", "from"])), "type": "Ent"},
                                                            {"dom": 1, "decl": draw(st.sampled_from(["let", "from"])), "type": "Ent"}],
            "select_form": draw(st.sampled_from(["entity", "entity", "set_of"])),
            # the membership test alone, or combined with another condition on the outer variable
            "combo": draw(st.sampled_from(["alone", "alone", "or_cond_first", "or_cond_first", "or_cond_last", "and_cond_first",
                                           "and_cond_last", "not_and_cond_first", "parent_cond_first", "parent_cond_first", "two_memberships"])),
            # (parent_cond_first: a condition on the PARENT variable comes first, so the concatenation is evaluated once per
            # qualifying parent, over that parent's inner collection only - "preserving any outer bindings")
            "parent_cond": ["cmp", draw(st.sampled_from([">=", "==", "<", "!="])), ["attr", ["var", 0], draw(st.sampled_from(["a", "b"]))],
                            ["const", draw(st.sampled_from(PROFILES[cfg.profile]["ints"]))]],
            "other_cond": ["cmp", draw(st.sampled_from([">=", "==", "<"])), ["attr", ["var", 1], draw(st.sampled_from(["a", "b"]))],
                           ["const", draw(st.sampled_from(PROFILES[cfg.profile]["ints"]))]],
            "inner": inner, "form": draw(st.sampled_from(["in_", "contains"])), "negate": draw(st.booleans()),
            "neg_spelling": draw(st.sampled_from(["not_", "~"])), "dom_kind": "list",
            "outer_term": draw(st.sampled_from(["var", "var", "ref"])) if inner == "kids" else
            ("s" if inner == "s" else ("o" if inner == "o" else draw(st.sampled_from(["a", "b"])))),
            # f = p.<inner> is ONE object: besides being concatenated it is the condition of another query over p
            # (an(entity(p, f))), built before or after the concatenation and evaluated (to the end / given up after one
            # result / not at all) before the concatenation is
            "shared_with_condition_query": draw(st.sampled_from([None, None, None, {"built": "before"}, {"built": "after"}])),
            "condition_query_run": draw(st.sampled_from(["full", "full", 1, None])),
            "abandon_first": draw(st.sampled_from([0, 0, 1, 2]))}


def strategy(tier):
    return _case(tier)


def _expr(v0, inner):
    from entity_query_language import flatten
    return flatten(v0.rows()) if inner == "rows" else getattr(v0, inner)


def _inner(p, inner):
    if inner == "rows":
        return [x for row in p.rows() for x in row]
    v = getattr(p, inner)
    if hasattr(v, "__iter__") and not isinstance(v, (str, bytes)):
        return list(v)
    return [v]


def check(case) -> Outcome:
    objs = build_entities(case["ents"])
    doms = var_domains(case, objs)
    parents, outer = doms
    flat = [x for p in parents for x in _inner(p, case["inner"])]
    ot = case["outer_term"]

    def oval(o):
        return o if ot == "var" else getattr(o, ot)

    def member(v):
        return v in flat          # ordinary Python membership (identity or ==)
    combo = case.get("combo", "alone")

    def holds(o):
        m = member(oval(o)) != bool(case["negate"])
        if combo == "alone":
            return m
        if combo == "two_memberships":
            return m and member(oval(o))      # a second membership test against a second concatenation over the same parents
        if combo == "parent_cond_first":
            return any(A.eval_cond(case["parent_cond"], {0: p_}) and
                       ((oval(o) in _inner(p_, case["inner"])) != bool(case["negate"])) for p_ in parents)
        c_ = A.eval_cond(case["other_cond"], {1: o})
        if combo.startswith("or_"):
            return c_ or m
        if combo.startswith("and_"):
            return c_ and m
        return not (c_ and m)
    members = [o for o in outer if member(oval(o))]
    non_members = [o for o in outer if not member(oval(o))]
    ids = [ident((x,)) for x in flat]
    nontrivial = len(parents) >= 2 and len(set(ids)) < len(ids) and bool(members) and bool(non_members)
    classes = ["combo_" + case.get("combo", "alone"), "select_" + case.get("select_form", "entity"), "inner_" + case["inner"], "form_" + case["form"], "negated" if case["negate"] else "plain",
               f"parents{len(parents)}", "outer_" + ot]
    if not flat:
        classes.append("all_inners_empty")
    if len(set(ids)) < len(ids):
        classes.append("element_twice")
    feats = list(classes)
    from ..world import snapshot
    before = snapshot(objs)
    # ---- the concatenated value itself (the same query object is evaluated twice)
    try:
        V, _ = declare_vars(case, objs)
        story = case.get("shared_with_condition_query")
        with symbolic_mode():
            f_ = _expr(V[0], case["inner"])
            cq = an(entity(V[0], f_)) if story and story["built"] == "before" else None
            c = concatenate(f_)
            q = an(entity(c)) if case.get("select_form", "entity") == "entity" else an(set_of([c]))
            if story and story["built"] == "after":
                cq = an(entity(V[0], f_))
        if cq is not None:
            classes.append("concatenated_expression_is_also_a_condition_of_a_query_built_" + story["built"])
            run_ = case.get("condition_query_run")
            if run_ == "full":
                list(cq.evaluate())
            elif run_:
                it_ = cq.evaluate()
                next(it_, None)
                it_.close()
    except Exception as e:
        return fail("exception_value", f"building: {type(e).__name__}: {e}", nontrivial=nontrivial, classes=classes,
                    features=feats)
    for attempt in (1, 2):
        try:
            res = list(q.evaluate())
            if case.get("select_form", "entity") == "set_of":
                res = [r[c] for r in res]
        except Exception as e:
            return fail("exception_value", f"evaluation {attempt} of an({case.get('select_form', 'entity')}(concatenate(p.{case['inner']}))): "
                                           f"{type(e).__name__}: {e}; expected one row {flat}", nontrivial=nontrivial,
                        classes=classes, features=feats)
        if len(res) != 1:
            return fail("not_exactly_one_row", f"evaluation {attempt}: concatenate produced {len(res)} rows {res}; expected "
                                               f"exactly one: {flat}", nontrivial=nontrivial, classes=classes, features=feats)
        val = res[0]
        if not isinstance(val, (list, tuple)) or [ident((x,)) for x in val] != ids:
            return fail("wrong_concatenation", f"evaluation {attempt}: concatenate value {val!r}; expected (in order, with "
                                               f"multiplicity) {flat!r}", nontrivial=nontrivial, classes=classes,
                        features=feats)
    if snapshot(objs) != before:
        return fail("user_data_modified", "evaluating the concatenation changed an attribute (or an inner collection) of a "
                                          "dataset object", nontrivial=nontrivial, classes=classes, features=feats)
    # ---- membership of an outer variable (single-variable query: ordered comparison)
    try:
        V, _ = declare_vars(case, objs)
        with symbolic_mode():
            c = concatenate(_expr(V[0], case["inner"]))
            d = V[1]
            item = d if ot == "var" else getattr(d, ot)
            cond = in_(item, c) if case["form"] == "in_" else contains(c, item)
            if case["negate"]:
                cond = not_(cond) if case["neg_spelling"] == "not_" else ~cond
            if combo == "two_memberships":
                from entity_query_language import and_
                c2 = concatenate(_expr(V[0], case["inner"]))
                cond = and_(cond, in_(item, c2) if case["form"] == "in_" else contains(c2, item))
            elif combo == "parent_cond_first":
                from entity_query_language import and_
                cond = and_(build_cond(case["parent_cond"], [V[0]]), cond)
            elif combo != "alone":
                from entity_query_language import and_, or_
                oc = build_cond(case["other_cond"], [None, d])
                if combo == "or_cond_first":
                    cond = or_(oc, cond)
                elif combo == "or_cond_last":
                    cond = or_(cond, oc)
                elif combo == "and_cond_first":
                    cond = and_(oc, cond)
                elif combo == "and_cond_last":
                    cond = and_(cond, oc)
                else:
                    cond = not_(and_(oc, cond))
            if case.get("select_form", "entity") == "entity":
                q = an(entity(d, cond))
            else:
                q = an(set_of([d, c], cond))          # the outer variable together with the concatenated value
    except Exception as e:
        return fail("exception_membership", f"building: {type(e).__name__}: {e}", nontrivial=nontrivial, classes=classes,
                    features=feats)
    want = [(o,) for o in outer if holds(o)]
    # the same membership query is evaluated three times, optionally after an evaluation that was given up after k results
    if case.get("abandon_first"):
        classes.append("membership_after_abandoned_evaluation")
        try:
            it_ = q.evaluate()
            for _ in range(case["abandon_first"]):
                if next(it_, _END) is _END:
                    break
            it_.close()
        except Exception as e:
            return fail("exception_membership", f"abandoned evaluation: {type(e).__name__}: {e}", nontrivial=nontrivial,
                        classes=classes, features=feats)
    for attempt in (1, 2, 3):
        try:
            if case.get("select_form", "entity") == "entity":
                got = [(r,) for r in q.evaluate()]
            else:
                got = []
                for r in q.evaluate():
                    if combo != "parent_cond_first" and (not isinstance(r[c], (list, tuple)) or [ident((x,)) for x in r[c]] != ids):
                        return fail("wrong_concatenation_in_row", f"evaluation {attempt}: set_of([d, concatenate(...)], ...) row "
                                                                  f"for {r[d]!r} carries {r[c]!r}; expected {flat!r}",
                                    nontrivial=nontrivial, classes=classes, features=feats)
                    got.append((r[d],))
        except Exception as e:
            return fail("exception_membership", f"evaluation {attempt}: {type(e).__name__}: {e}", nontrivial=nontrivial,
                        classes=classes, features=feats + [f"evaluation{attempt}"])
        if snapshot(objs) != before:
            return fail("user_data_modified", "evaluating the membership query changed an attribute (or an inner collection) "
                                              "of a dataset object", nontrivial=nontrivial, classes=classes, features=feats)
        # (with the parent bound first the parent is a hidden variable of the result: one row per qualifying parent, in
        # parent order - compared as a set, like any projection)
        bad = compare_lists(want, got) if combo != "parent_cond_first" else compare_sets(want, got, False)
        if bad:
            return fail(("membership_" if attempt == 1 else "reevaluation_membership_") + bad[0],
                        f"evaluation {attempt}: {'not ' if case['negate'] else ''}{case['form']}(d{'' if ot == 'var' else '.' + ot}, "
                        f"concatenate(p.{case['inner']})) with flat list {flat}: {bad[1]}",
                        nontrivial=nontrivial, classes=classes, features=feats + [f"evaluation{attempt}"])
    return Outcome(True, nontrivial=nontrivial, classes=classes, features=feats)


_END = object()


def render(case):
    return {"parents": [f"#{i}:Ent(a={case['ents'][i]['a']},tags={case['ents'][i]['tags']},kids={case['ents'][i]['kids']})"
                        for i in case["doms"][0]],
            "outer_domain": case["doms"][1],
            "query": f"{'not ' if case['negate'] else ''}{case['form']}(d{'' if case['outer_term'] == 'var' else '.' + case['outer_term']}, "
                     f"concatenate(p.{case['inner']}))",
            "combined": case.get("combo", "alone") + ("" if case.get("combo", "alone") == "alone" else " with " + A.r_cond(case["other_cond"]).replace("v1", "d"))}
