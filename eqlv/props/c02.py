"""C02 - a multi-variable query returns exactly the satisfying assignments.

Generator : 1-3 variables (4 in the thorough tier), each with its own domain (product <= 64), self-joins over one
            shared list, any declaration order/style; condition over any subset of the variables (joins by
            comparison, identity joins, chained attributes, two-argument predicates, disjunctions over equal /
            different / overlapping variable sets, negation); selection = any non-empty sequence of the variables
            in any order, optionally with a value expression of one of them.
Oracle    : S = satisfying assignments of the Cartesian product (Python semantics).  (i) projected rows equal as
            SETS; (ii) when every variable of the query is selected: equal as MULTISETS (row count = |S|);
            (iii) each row maps every selected expression to its value under the row's own assignment.
"""
from __future__ import annotations

from .. import ast as A
from ..runner import Outcome, fail, open_features
from ..strategies import Cfg, query_case
from ..world import build_entities
from ..qcheck import (reference_rows, run_query, compare_sets, case_features, all_vars_selected, row_consistency,
                      render_query, used_vars)

ID = "C02"
TITLE = "A multi-variable query returns exactly the satisfying assignments"
TECHNIQUE = "property-based testing (Hypothesis) against a brute-force Cartesian-product reference evaluator"
RULE = ("cases = (dataset, 1-4 variables with domains, condition tree, selection) drawn by Hypothesis with weighted shape "
        "templates (AND whose right side is a different-variable OR, AND of two ORs, overlapping OR, self-join, "
        "unconstrained selected variable); result compared with the brute-force product filter as a set, as a multiset "
        "when all query variables are selected, and per-row for selected expressions. Non-trivial = >=2 variables, some "
        "leaf relates two variables or there is a different-variable disjunction, and the satisfying set is a non-empty "
        "proper subset of the product; distinct = distinct canonical JSON.")
BUDGET = {"quick": (8, 2600), "thorough": (16, 8000)}
ASSUMPTIONS = ["each variable has its own container or shares one list object with another variable (never a shared "
               "one-shot iterator)", "conditions never raise under Python semantics (by construction)"]


def _cfg(tier):
    avoid = open_features()
    return Cfg(nvars=(1, 4 if tier == "thorough" else 3), pool=(2, 5), dom=(0, 3), max_product=64,
               profile="falsy" if "falsy_values" not in avoid else "clean", max_depth=2,
               allow_nested_not="not_under_not" not in avoid, allow_empty_cond=True,
               select="any", desc=("entity", "set_of"), value_terms_in_select=True, force_relate=True,
               dom_kinds=("list", "list", "tuple"), avoid=frozenset(avoid), kw_vars=(1, 6),
               extra_templates=("indep_and_or3", "indep_and_or3", "indep_and_or3", "indep_and_or3", "indep_and_join3", "indep_and_join3",
                                "and_left_or_then_other", "and_left_or_then_other", "value_equal_join",
                                "value_equal_join", "value_equal_join"), earlier_sharing=(1, 5), clones=(1, 3))


def strategy(tier):
    return query_case(_cfg(tier))


def check(case) -> Outcome:
    objs = build_entities(case["ents"])
    feats = case_features(case)
    expected, n_sat, n_all = reference_rows(case, objs)
    multiset = all_vars_selected(case)
    cond = case.get("cond")
    nontrivial = (len(used_vars(case)) >= 2 and cond is not None and ("join" in feats or "or_diff_vars" in feats)
                  and 0 < n_sat < n_all)
    classes = [f for f in feats if f in ("join", "self_join", "or_diff_vars", "or_same_vars", "and_right_or", "not",
                                         "not_over_and", "not_over_or", "pred", "chained", "unconstrained_var",
                                         "no_cond", "empty_domain", "mixed_types", "vars1", "vars2", "vars3", "vars4")]
    classes.append("multiset" if multiset else "projected")
    classes.append(case.get("desc", "entity"))
    if any(t[0] != "var" for t in case["sel"]):
        classes.append("value_selected")
    try:
        got, built = run_query(case, objs)
    except Exception as e:
        return fail("exception", f"{type(e).__name__}: {e}; expected {expected}", nontrivial=nontrivial,
                    classes=classes, features=feats)
    bad = compare_sets(expected, got, multiset)
    if bad:
        return fail(bad[0], bad[1], nontrivial=nontrivial, classes=classes, features=feats)
    inc = row_consistency(case, got)
    if inc:
        return fail("inconsistent_row", inc, nontrivial=nontrivial, classes=classes, features=feats)
    return Outcome(True, nontrivial=nontrivial, classes=classes, features=feats)


render = render_query
