"""C07 - evaluation is demand-driven and consumes lazily supplied domains only as needed.

Generator : a LOGGING ONE-SHOT ITERATOR (``__iter__`` returns self, ``__next__`` records the index it hands out) over
            0-8 objects of mixed types supplied as let(T, domain=it) or T(From(it)); a condition from the C01 grammar
            (the empty condition is its own class); then a history of partial(k) / full evaluations.
Oracle    : (a) building the query and calling evaluate() pull nothing; (b) in EVERY evaluation the k-th object yielded is
            the k-th qualifying object, and in the first one the log is at that moment exactly [0..its index]; (c) over the whole history
            the log is always the prefix [0..m] (no element pulled twice); (d) in later evaluations, when the object
            with index i is yielded, len(log) == max(len(log) before this evaluation, i+1).
"""
from __future__ import annotations

from hypothesis import strategies as st

from .. import ast as A
from ..runner import Outcome, fail, open_features
from ..strategies import Cfg, query_case, chance
from ..world import build_entities, CLASSES, InjectedFault
from ..build import build_over
from ..qcheck import case_features

from entity_query_language import let, From, symbolic_mode

ID = "C07"
TITLE = "Evaluation is demand-driven and consumes lazily supplied domains only as needed"
TECHNIQUE = "property-based testing (Hypothesis) with an instrumented one-shot iterator as the domain, vs a reference filter"
RULE = ("cases = (objects of mixed types behind a logging one-shot iterator, condition tree or no condition, history of "
        "partial(k)/full evaluations) drawn by Hypothesis; after every yielded result the pull log is compared with the "
        "prefix the reference filter needs. Non-trivial = some non-qualifying element precedes a qualifying one and a "
        "strict prefix was observed (a partial evaluation stopped before the last qualifying element); distinct = "
        "canonical JSON.")
BUDGET = {"quick": (8, 400), "thorough": (16, 4000)}
ASSUMPTIONS = ["the one-shot iterator is the domain of exactly one variable", "asking an exhausted iterator again is not an element pull"]


class LoggingIterator:
    def __init__(self, items, fail_at=None):
        self.items = list(items)
        self.pos = 0
        self.log = []
        self.fail_at = fail_at        # the source raises ONCE when it is asked for this element, and delivers it next time

    def __iter__(self):
        return self

    def __next__(self):
        if self.pos >= len(self.items):
            raise StopIteration
        if self.fail_at is not None and self.pos == self.fail_at:
            self.fail_at = None
            raise InjectedFault(f"the source failed once at element {self.pos}")
        self.log.append(self.pos)
        self.pos += 1
        return self.items[self.pos - 1]


def _cfg():
    avoid = open_features()
    return Cfg(nvars=(1, 1), pool=(3, 8), dom=(2, 8), profile="falsy" if "falsy_values" not in avoid else "clean",
               max_depth=2, allow_nested_not="not_under_not" not in avoid, allow_empty_cond=True, noise=True,
               select="first", desc=("entity",), dom_kinds=("list",), const_operands=(1, 5))


@st.composite
def _case(draw, tier):
    if chance(draw, 1, 8):
        return draw(_large_case())
    c = draw(query_case(_cfg()))
    ops = []
    for _ in range(draw(st.integers(1, 4))):
        if draw(st.booleans()):
            # (given up by closing the iterator, or simply never advanced again while it stays referenced and unfinished)
            ops.append(["partial", draw(st.sampled_from([1, 1, 2, 2, 3])), draw(st.sampled_from(["close", "close", "keep"]))])
        else:
            ops.append(["full"])
    c["ops"] = ops
    # every result of an evaluation may be requested while a symbolic block is open around the consumer
    c["ambients"] = [draw(st.sampled_from(["none", "none", "query", "rule"])) for _ in ops]
    # the source itself (user code) fails once, transiently, at some element: the evaluation that hits it is aborted, later
    # ones go on from where the source is
    c["source_fails_at"] = draw(st.sampled_from([None, None, None, 0, 1, 2, 3]))
    return c


@st.composite
def _large_case(draw):
    """A domain well beyond 20 elements (the library switches on extra bookkeeping for 'large' domains of more than 20
    memoised values, symbolic.py _warn_on_unbound_variables_), consumed in several partial evaluations."""
    n = draw(st.integers(22, 30))
    ents = [{"cls": "Ent", "k": i + 1, "a": draw(st.sampled_from([0, 1, 2])), "b": 1, "s": "x", "tags": [1], "o": 1, "ref": 0,
             "kids": [], "d": {"p": 1, "q": 2}} for i in range(n)]
    cond = draw(st.sampled_from([None, None, ["cmp", ">=", ["attr", ["var", 0], "a"], ["const", 0]],
                                 ["cmp", ">=", ["attr", ["var", 0], "a"], ["const", 1]]]))
    ops = [["partial", draw(st.integers(20, 24))], ["partial", draw(st.integers(1, 3))], ["full"]]
    if draw(st.booleans()):
        ops.insert(0, ["partial", draw(st.integers(1, 5))])
    return {"ents": ents, "doms": [list(range(n))], "vars": [{"dom": 0, "decl": draw(st.sampled_from(["let", "from"])), "type": "Ent"}],
            "cond": cond, "dom_kind": "list", "split_top": False, "quant": "an", "sel": [["var", 0]], "desc": "entity",
            "ops": ops, "large": True}


def strategy(tier):
    return _case(tier)


def _ambient(name):
    from entity_query_language import rule_mode
    import contextlib
    return symbolic_mode() if name == "query" else (rule_mode() if name == "rule" else contextlib.nullcontext())


def check(case) -> Outcome:
    objs = build_entities(case["ents"])
    feats = case_features(case)
    items = [objs[i] for i in case["doms"][0]]
    index_of = {id(o): i for i, o in enumerate(items)}
    cond = case.get("cond")
    qualifies = [isinstance(o, CLASSES["Ent"]) and (cond is None or A.eval_cond(cond, {0: o})) for o in items]
    q_idx = [i for i, q in enumerate(qualifies) if q]
    it = LoggingIterator(items, case.get("source_fails_at"))
    classes = ["no_cond" if cond is None else "cond", "decl_" + case["vars"][0]["decl"]]
    if any(type(o).__name__ in ("Other", "Foreign") for o in items):
        classes.append("mixed_types")
    classes += [f for f in feats if f in ("and", "or", "not", "or_same_vars", "pred")]
    if case.get("large"):
        classes.append("domain_over_20_elements")
    if any(a != "none" for a in case.get("ambients") or []):
        classes.append("results_requested_inside_a_block")
    nontrivial = False
    skipped_before = bool(q_idx) and any(not qualifies[j] for j in range(q_idx[-1]))

    try:
        if case["vars"][0]["decl"] == "let":
            v = let(CLASSES["Ent"], domain=it)
        else:
            with symbolic_mode():
                v = CLASSES["Ent"](From(it))
        built = build_over([v], case)
    except InjectedFault as e:
        # the source was asked for an element (and refused) while the query was only being BUILT
        return fail("work_before_demand", f"declaring the variable / building the query pulled from the domain iterator: {e}",
                    classes=classes, features=feats)
    if it.log:
        return fail("work_before_demand", f"building the query pulled {it.log} from the domain iterator", classes=classes,
                    features=feats)
    first = True
    kept = []
    for step, op in enumerate(case["ops"]):
        before = len(it.log)
        gen = built.q.evaluate()
        if len(it.log) != before:
            return fail("work_before_demand", f"evaluate() pulled {it.log[before:]} before any result was requested",
                        classes=classes, features=feats)
        want_n = op[1] if op[0] == "partial" else None
        got = []
        aborted = False
        while want_n is None or len(got) < want_n:
            try:
                with _ambient((case.get("ambients") or [])[step] if step < len(case.get("ambients") or []) else "none"):
                    r = next(gen)
            except StopIteration:
                break
            except InjectedFault:
                # the source raised (once): this evaluation is over; what it delivered so far was checked above, and the next
                # evaluations must deliver the rest
                aborted = True
                if "source_raised_once" not in classes:
                    classes.append("source_raised_once")
                break
            except Exception as e:
                return fail("exception", f"step {step} {op}: {type(e).__name__}: {e}", classes=classes, features=feats)
            i = index_of.get(id(r))
            if i is None:
                return fail("foreign_result", f"step {step}: yielded {r!r} which is not a domain element", classes=classes,
                            features=feats)
            got.append(i)
            if it.log != list(range(len(it.log))):
                return fail("element_pulled_twice_or_out_of_order", f"step {step} {op}: pull log {it.log}", classes=classes,
                            features=feats)
            need = max(before, i + 1)
            if len(it.log) != need:
                kind = "pulled_ahead" if len(it.log) > need else "pulled_too_little"
                return fail(kind, f"step {step} {op}: result #{len(got)} is element {i}; the iterator should have been "
                                  f"pulled up to {need} elements (had {before} before this evaluation) but the log is "
                                  f"{it.log}; qualifying indices {q_idx}", classes=classes, features=feats,
                            nontrivial=nontrivial)
            if got != q_idx[:len(got)]:
                return fail("wrong_kth_result", f"step {step} {op}: evaluation #{step + 1} yielded elements {got}, the "
                                                f"qualifying elements are {q_idx}", classes=classes, features=feats)
        if aborted:
            try:
                gen.close()
            except Exception:
                pass
            first = False
            continue
        if want_n is not None:
            if len(got) < want_n and got != q_idx:
                return fail("wrong_full_result", f"step {step} {op}: the evaluation ended after {got}, qualifying {q_idx} "
                                                 f"(history {case['ops'][:step]})", classes=classes, features=feats)
            if len(op) > 2 and op[2] == "keep":
                kept.append(gen)
                if "earlier_iterator_kept_open" not in classes:
                    classes.append("earlier_iterator_kept_open")
            else:
                gen.close()
            if len(got) == want_n and len(got) < len(q_idx) and skipped_before:
                nontrivial = True
            if "partial" not in classes:
                classes.append("partial")
        else:
            if got != q_idx:
                return fail("wrong_full_result", f"step {step}: full evaluation #{step + 1} yielded {got}, qualifying "
                                                 f"{q_idx} (history {case['ops'][:step]})", classes=classes, features=feats)
        if it.log != list(range(len(it.log))):
            return fail("element_pulled_twice_or_out_of_order", f"after step {step} {op}: pull log {it.log}",
                        classes=classes, features=feats)
        first = False
    return Outcome(True, nontrivial=nontrivial, classes=classes, features=feats)


def render(case):
    return {"iterator_items": [f"{case['ents'][i]['cls']}#{i}" for i in case["doms"][0]],
            "decl": case["vars"][0]["decl"], "cond": A.r_cond(case["cond"]) if case.get("cond") is not None else None,
            "history": case["ops"], "block_open_around_the_consumer": case.get("ambients")}
