"""C16 - flatten behaves as UNNEST: one row per inner element, correlated with its parent.

Generator : 1-4 parents whose inner collection is p.kids (lists of 0-3 entities, overlapping between parents, optionally
            repeating an element), p.tags (tuples of ints, possibly empty) or the scalar p.a (a non-iterable counts as a
            single element); e = flatten(inner); selection in {entity(e), [e], [p, e], [e, p]}; extra condition in {none,
            on e, on p, on both, join of e with a third variable}.
Oracle    : rows = [(p, x) for p in parents for x in inner(p) if cond(p, x[, z])]: multiset equality when p and e are both
            selected; for [e] / entity(e) the multiset of x (one row per element under every binding).  Only the identical
            rows produced by an element that ONE inner collection lists twice may be delivered once or once per occurrence.
"""
from __future__ import annotations

import itertools
from collections import Counter

from hypothesis import strategies as st

from .. import ast as A
from ..runner import Outcome, fail, open_features
from ..strategies import Cfg, Ctx, draw_dataset, leaf, chance, PROFILES, CMP_OPS
from ..world import build_entities, CLASSES
from ..build import declare_vars, build_cond
from ..qcheck import ident, show_rows, var_domains

from entity_query_language import an, entity, set_of, symbolic_mode, flatten

ID = "C16"
TITLE = "flatten behaves as UNNEST: one row per inner element, correlated with its parent"
TECHNIQUE = "property-based testing (Hypothesis) against a nested-comprehension (UNNEST) reference"
RULE = ("cases = (parents with inner collections of different lengths incl. empty / overlapping / repeated / scalar, selection "
        "of parent and/or flattened element, optional condition on element / parent / both / a third variable) drawn by "
        "Hypothesis; rows are compared as multisets with the nested comprehension. Non-trivial = >= 2 parents with different "
        "non-empty inners; distinct = canonical JSON.")
BUDGET = {"quick": (8, 500), "thorough": (16, 4000)}
ASSUMPTIONS = ["the flattened expression is built once and that same object is used in the selection and in the conditions"]


@st.composite
def _case(draw, tier):
    avoid = open_features()
    cfg = Cfg(profile="falsy" if "falsy_values" not in avoid else "clean", pool=(2, 6), noise=False)
    P = PROFILES[cfg.profile]
    recs = draw_dataset(draw, cfg)
    n = len(recs)
    # (o is the "anything" slot: None, False, 0, '', 1, 'x', True count as single elements; (), [] and (1,) are collections)
    inner = draw(st.sampled_from(["kids", "kids", "kids", "tags", "a", "s", "o", "o"]))
    # the collection is computed on demand: flatten(p.kids_now()) - a new list at every call
    on_demand = inner in ("kids", "tags") and chance(draw, 1, 4)
    if inner == "kids" and chance(draw, 1, 4):
        # make one list repeat an element
        r = recs[draw(st.integers(0, n - 1))]
        if r["kids"]:
            r["kids"] = r["kids"] + [r["kids"][0]]
    np_ = draw(st.integers(1, min(4, n))) if not on_demand else min(n, draw(st.sampled_from([3, 4, 4, 5])))
    parents = list(draw(st.permutations(list(range(n))))[:np_])
    doms = [parents]
    third = chance(draw, 1, 4)
    if third:
        doms.append(list(draw(st.permutations(list(range(n))))[:draw(st.integers(1, min(3, n)))]))
    vars_ = [{"dom": j, "decl": draw(st.sampled_from(["let", "from"])), "type": "Ent"} for j in range(len(doms))]
    ctx = Ctx(cfg, recs, 1)
    E = ["var", 1]          # the flattened element plays the role of variable 1 in conditions; a third variable is 2
    ent_elem = inner == "kids"

    def cond_on_e():
        if ent_elem:
            k = draw(st.sampled_from(["a", "b", "s", "is_big", "self"]))
            if k in ("a", "b"):
                return ["cmp", draw(st.sampled_from(CMP_OPS)), ["attr", E, k], ["const", draw(st.sampled_from(P["ints"]))]]
            if k == "s":
                return ["cmp", "==", ["attr", E, "s"], ["const", draw(st.sampled_from(P["strs"]))]]
            if k == "is_big":
                return ["truth", ["call", E, "is_big", []]]
            return ["cmp", draw(st.sampled_from(["==", "!="])), E, ["var", 0]]
        if inner == "s":
            return ["cmp", draw(st.sampled_from(["==", "!=", "<"])), E, ["const", draw(st.sampled_from(P["strs"]))]]
        if inner == "o":
            from ..world import enc
            return ["cmp", draw(st.sampled_from(["==", "!="])), E,
                    ["const", enc(draw(st.sampled_from([a_ for a_ in P["anys"] if not isinstance(a_, (list, tuple))])))]]
        return ["cmp", draw(st.sampled_from(CMP_OPS)), E, ["const", draw(st.sampled_from(P["ints"]))]]

    def cond_on_p():
        return leaf(draw, ctx, [0])

    kind = draw(st.sampled_from(["none", "none", "on_e", "on_e", "on_p", "both", "or", "or", "not_and", "or_and", "or_and"]
                                + (["third"] * 6 if third else [])))
    if kind == "none":
        cond = None
    elif kind == "on_e":
        cond = cond_on_e()
    elif kind == "on_p":
        cond = cond_on_p()
    elif kind == "both":
        cond = ["and", "nary", [cond_on_e(), cond_on_p()] if draw(st.booleans()) else [cond_on_p(), cond_on_e()]]
    elif kind in ("or", "not_and"):
        # disjunctions (also as a negated conjunction) mixing conditions on the parent and on the flattened element
        parts = draw(st.sampled_from([[cond_on_p(), cond_on_e()], [cond_on_e(), cond_on_p()], [cond_on_e(), cond_on_e()]]))
        cond = ["or", draw(st.sampled_from(["nary", "binl"])), parts] if kind == "or" else \
            ["not", "not_", ["and", "nary", parts]]
    elif kind == "or_and":
        # a disjunction one operand of which is a conjunction of conditions on the element (several elements of one parent
        # fail it before one satisfies the other operand)
        conj = ["and", draw(st.sampled_from(["nary", "binl"])), [cond_on_e(), draw(st.sampled_from([cond_on_e(), cond_on_e(), cond_on_p()]))]]
        other = cond_on_e()
        cond = ["or", draw(st.sampled_from(["nary", "binl"])), [conj, other] if chance(draw, 2, 3) else [other, conj]]
    else:
        if ent_elem:
            j = draw(st.sampled_from([["cmp", "==", E, ["var", 2]], ["cmp", "!=", E, ["var", 2]],
                                      ["cmp", "<", ["attr", E, "a"], ["attr", ["var", 2], "a"]]]))
        else:
            j = ["cmp", draw(st.sampled_from(CMP_OPS if inner != "o" else ["==", "!="])), E,
                 ["attr", ["var", 2], "s" if inner == "s" else ("o" if inner == "o" else "a")]]
        cond = j
    if kind == "or_and" and inner in ("tags", "kids"):
        # longer inner collections: several elements of one parent fail the conjunction before one satisfies the other side
        for i in parents:
            while len(recs[i][inner]) < 3:
                recs[i][inner] = recs[i][inner] + [draw(st.sampled_from(P["ints"])) if inner == "tags" else draw(st.integers(0, n - 1))]
    if third and kind != "third":
        doms.pop()
        vars_.pop()
    sel = draw(st.sampled_from(["entity_e", "e", "p_e", "e_p", "entity_e", "e", "p_e", "e_p"]
                               + (["p_only", "e_attr"] if inner == "kids" and kind not in ("none", "on_p") else [])
                               + (["p_only", "p_only"] if inner in ("tags", "a", "o") and kind not in ("none", "on_p") else [])
                               + (["p_only"] * 6 if kind == "or_and" and inner in ("tags", "kids") else [])))
    return {"earlier_bare_condition": draw(st.sampled_from([None, None, None, "one", "all"])), "on_demand": on_demand, "ents": recs, "doms": doms, "vars": vars_, "inner": inner, "cond": cond, "cond_kind": kind, "select": sel,
            "dom_kind": "list", "split_top": draw(st.booleans())}


def strategy(tier):
    return _case(tier)


def _inner(p, inner):
    v = getattr(p, inner)
    if hasattr(v, "__iter__") and not isinstance(v, (str, bytes)):
        return list(v)
    return [v]


def build(case, objs):
    """Build the flatten query of a case; returns (query, extract) with extract(results) -> [(parent | None, value)]."""
    sel = case["select"]
    cond = case["cond"]
    V, conts = declare_vars(case, objs)
    with symbolic_mode():
        p = V[0]
        e = flatten(getattr(p, case["inner"] + "_now")() if case.get("on_demand") else getattr(p, case["inner"]))
        VV = [p, e] + V[1:]
        conds = []
        if cond is not None:
            if case["split_top"] and cond[0] == "and":
                conds = [build_cond(c, VV) for c in cond[2]]
            else:
                conds = [build_cond(cond, VV)]
        if sel == "entity_e":
            q = an(entity(e, *conds))
        elif sel == "e":
            q = an(set_of([e], *conds))
        elif sel == "p_e":
            q = an(set_of([p, e], *conds))
        elif sel == "e_p":
            q = an(set_of([e, p], *conds))
        elif sel == "p_only":
            q = an(entity(p, *conds))            # projection onto the parent
        else:
            ea = e.a
            q = an(entity(ea, *conds))           # projection onto an attribute of the flattened element
        pre = an(entity(p, e)) if case.get("earlier_bare_condition") else None
    if pre is not None:
        # the SAME flatten object was first the bare condition of another query over the parent (true where the element is
        # truthy), evaluated to the end or given up after one result: here it is a value again
        it_ = pre.evaluate()
        if case["earlier_bare_condition"] == "one":
            next(it_, None)
            it_.close()
        else:
            for _ in it_:
                pass

    def extract(res):
        if sel == "e":
            return [(None, r[e]) for r in res]
        if sel in ("entity_e", "p_only", "e_attr"):
            return [(None, r) for r in res]
        return [(r[p], r[e]) for r in res]
    return q, extract


def check(case) -> Outcome:
    objs = build_entities(case["ents"])
    doms = var_domains(case, objs)
    parents = doms[0]
    third = doms[1] if len(doms) > 1 else [None]
    cond = case["cond"]
    sel = case["select"]
    expected = []          # one entry per (parent, position in its inner collection, third value) that qualifies
    for p in parents:
        for x in _inner(p, case["inner"]):
            for z in third:
                env = {0: p, 1: x, 2: z}
                if cond is None or A.eval_cond(cond, env):
                    expected.append((p, x, z))
    inners = [tuple(map(id, _inner(p, case["inner"]))) for p in parents]
    nonempty = [i for i in inners if i]
    nontrivial = len(parents) >= 2 and len(set(nonempty)) >= 2
    classes = ["inner_" + case["inner"] + ("_computed_on_demand" if case.get("on_demand") else ""), "select_" + sel, "cond_" + case["cond_kind"], f"parents{len(parents)}"]
    if any(not i for i in inners):
        classes.append("empty_inner")
    if case.get("earlier_bare_condition"):
        classes.append("flatten_object_was_a_bare_condition_of_an_earlier_query")
    if any(len(set(i)) < len(i) for i in inners):
        classes.append("repeated_in_one_list")
    flat_ids = [x for i in inners for x in i]
    if len(set(flat_ids)) < len(flat_ids):
        classes.append("overlapping_inners")
    feats = list(classes)
    if sel == "p_only" and case["cond_kind"] in ("or", "not_and", "or_and") and any(not i for i in inners):
        feats.append("parent_only_disjunction_with_empty_inner")
    try:
        q, extract = build(case, objs)
    except Exception as ex:
        return fail("exception", f"building: {type(ex).__name__}: {ex}", nontrivial=nontrivial, classes=classes,
                    features=feats)
    # the same query object is evaluated twice: the second evaluation must satisfy the same oracle (C04/C05 for this family)
    for attempt in (1, 2):
        try:
            got = extract(list(q.evaluate()))
        except Exception as ex:
            return fail("exception", f"evaluation {attempt}: {type(ex).__name__}: {ex}; expected {show_rows(expected)}",
                        nontrivial=nontrivial, classes=classes, features=feats + [f"evaluation{attempt}"])
        bad = _compare(case, sel, third, expected, got, cond)
        if bad:
            return fail(bad[0] if attempt == 1 else "reevaluation_" + bad[0], f"evaluation {attempt}: {bad[1]}",
                        nontrivial=nontrivial, classes=classes, features=feats + [f"evaluation{attempt}"])
    return Outcome(True, nontrivial=nontrivial, classes=classes, features=feats)


def _compare(case, sel, third, expected, got, cond):
    if sel in ("p_only", "e_attr"):
        # projections: compared as sets (the number of repetitions of a projected row is not asserted, cf. C02)
        want = {ident((p_,)) if sel == "p_only" else ident((x_.a,)) for p_, x_, _ in expected}
        have = {ident((v,)) for _, v in got}
        if want != have:
            kind = "missing_rows" if want - have else "extra_rows"
            return kind, (f"select {sel}, inner {case['inner']}, cond {A.r_cond(cond) if cond else None}: expected "
                          f"{sorted(map(str, want))} got {show_rows(got)}")
        return None
    # Row key as selected; every DISTINCT assignment (parent, element, third value) must produce its own row.  An element
    # that one inner collection lists twice yields the same assignment twice: those identical rows may be delivered once
    # or once per occurrence (they are not distinguishable assignments), so for them a range of counts is accepted.
    def key(p_, x_):
        return ident((x_,)) if sel in ("entity_e", "e") else ident((p_, x_))
    upper = Counter(key(p_, x_) for p_, x_, _ in expected)
    lower = Counter(key(p_, x_) for p_, x_, _ in {(id(a), id(b), id(c)): (a, b, c) for a, b, c in expected}.values())
    if len(third) > 1 or third[0] is not None:
        # the third variable is not selected: the row count under projection is not asserted (cf. C02)
        lower = Counter({k: 1 for k in lower})
    g = Counter(key(p_, x_) for p_, x_ in got)
    show_exp = [(a, b) for a, b, _ in expected]
    if set(upper) - set(g):
        bad_kind = "missing_rows"
    elif set(g) - set(upper):
        bad_kind = "extra_rows"
    elif any(not (lower[k] <= g[k] <= upper[k]) for k in upper):
        bad_kind = "wrong_multiplicity"
    else:
        bad_kind = None
    if bad_kind:
        return bad_kind, (f"select {sel}, inner {case['inner']}, cond {A.r_cond(cond) if cond else None}: expected "
                          f"{show_rows(show_exp)} got {show_rows(got)}")
    return None


def bucket(case, out):
    return out.kind + "|" + ",".join(f for f in out.features if f.startswith(("select_", "cond_")) or f in
                                     ("repeated_in_one_list", "overlapping_inners"))


def render(case):
    return {"parents": [f"#{i}:Ent(a={case['ents'][i]['a']},tags={case['ents'][i]['tags']},kids={case['ents'][i]['kids']})"
                        for i in case["doms"][0]],
            "third_domain": case["doms"][1] if len(case["doms"]) > 1 else None,
            "query": f"e = flatten(p.{case['inner'] + ('_now()' if case.get('on_demand') else '')}); select {case['select']}; cond (v0=p, v1=e, v2=third) "
                     f"{A.r_cond(case['cond']) if case['cond'] else None}"}
