"""C14 - a variable without a domain ranges over exactly the live registry of instances.

Generator : per case a generated class hierarchy (decorated root; decorated / undecorated children and grandchildren;
            dataclass or hand-written __init__ with an init counter; defaults) and a HISTORY: construct concretely
            (positional / keyword / defaults); construct symbolically inside symbolic_mode() and inside rule_mode(); run a
            small inference rule whose head is a class of the hierarchy; clear the registry (the conftest idiom); QUERY:
            declare let(T) (or T() in a block) now and evaluate it now, for a drawn T.
Oracle    : model = the objects constructed concretely (inferred ones included) since the last clear; the query result
            equals [o for o in model if isinstance(o, T)] as a MULTISET BY IDENTITY.  Symbolic construction returns an
            expression, leaves every init counter and the registry untouched.
"""
from __future__ import annotations

import threading
from collections import Counter
from dataclasses import dataclass, field, make_dataclass

from hypothesis import strategies as st

from ..runner import Outcome, fail
from ..strategies import chance
from ..world import Ent, FAULT, InjectedFault, p_flaky

from entity_query_language import an, the, entity, let, symbolic_mode, rule_mode, symbol, infer, From, MultipleSolutionFound, NoSolutionFound
from entity_query_language.symbolic import SymbolicExpression, Variable

import importlib

P = importlib.import_module("entity_query_language.predicate")   # the module (the package attribute is the decorator)

ID = "C14"
TITLE = "A variable without a domain ranges over exactly the live registry of instances"
TECHNIQUE = "model-based (history) property testing with Hypothesis: op sequences over a generated class hierarchy vs a list model"
RULE = ("cases = (class hierarchy spec, history of <= 14 ops: concrete construction, symbolic construction in query/rule mode, "
        "rule inference, registry clearing, declare-and-evaluate queries) drawn by Hypothesis; every query result is compared "
        "with the model list as a multiset by identity, and symbolic constructions are checked for side effects. Non-trivial "
        "= a queried type had instances of >= 2 classes (one of them undecorated) and the history contains a symbolic "
        "construction before that query; distinct = canonical JSON.")
BUDGET = {"quick": (4, 300), "thorough": (16, 3000)}
ASSUMPTIONS = ["a variable is declared and evaluated at one point of the history (the statement does not say relative to which "
               "moment 'so far' is meant otherwise)", "instance order is not asserted"]


@st.composite
def _case(draw, tier):
    # hierarchy: node 0 is the decorated root; every other node has a parent with a smaller index
    nodes = [{"parent": None, "decorated": True, "kind": draw(st.sampled_from(["dataclass", "manual"]))}]
    for i in range(1, draw(st.integers(1, 4)) + 1):
        parent = draw(st.integers(0, i - 1))
        nodes.append({"parent": parent, "decorated": draw(st.booleans()), "kind": nodes[0]["kind"]})
    ops = []
    for _ in range(draw(st.integers(3, 14))):
        k = draw(st.sampled_from(["new", "new", "new", "sym", "sym", "infer", "clear", "query", "query", "query", "query_partial"]))
        c = draw(st.integers(0, len(nodes) - 1))
        if k == "new":
            ops.append(["new", c, draw(st.sampled_from(["positional", "keyword", "defaults"])), draw(st.integers(0, 3)),
                        draw(st.sampled_from(["here", "here", "here", "thread_query", "thread_rule", "thread"]))])
        elif k == "sym":
            ops.append(["sym", c, draw(st.sampled_from(["query", "rule"])), draw(st.sampled_from(["noargs", "kwargs"])),
                        draw(st.sampled_from(["plain", "plain", "after_raise", "after_abandon", "after_the_raises"]))])
        elif k == "infer":
            ops.append(["infer", c, draw(st.integers(0, 3))])
        elif k == "clear":
            ops.append(["clear"])
        elif k == "new_raising":
            ops.append(["new_raising", c])        # a construction whose own initialisation raises: nothing was constructed
        elif k == "query_partial":
            # an evaluation over a no-domain variable that the consumer gives up after its first result
            ops.append(["query_partial", c, draw(st.sampled_from(["let", "block"])), draw(st.sampled_from(["break", "close", "the"]))])
        else:
            ops.append(["query", c, draw(st.sampled_from(["let", "block", "block_entity", "rule_block", "rule_block_entity"]))])
    if chance(draw, 1, 4):
        # a class without any field (its instances have an empty __dict__) and an undecorated subclass of it
        for _ in range(draw(st.integers(1, 3))):
            ops.insert(draw(st.integers(0, len(ops))), ["new_bare", draw(st.sampled_from(["base", "sub"]))])
        ops.append(["query_bare"])
    if chance(draw, 1, 12):
        # (KF-65, open: one case in twelve has a construction whose own initialisation raises)
        ops.insert(draw(st.integers(0, len(ops))), ["new_raising", draw(st.integers(0, len(nodes) - 1))])
    ops.append(["query", draw(st.integers(0, len(nodes) - 1)), "let"])
    return {"nodes": nodes, "ops": ops}


def strategy(tier):
    return _case(tier)


def _make_classes(nodes):
    counters = []
    classes = []
    for i, nd in enumerate(nodes):
        bases = (classes[nd["parent"]],) if nd["parent"] is not None else ()
        cnt = {"inits": 0}
        counters.append(cnt)
        if nd["kind"] == "dataclass":
            ns = {"__annotations__": {"v": int, "w": int} if not bases else {}}
            if not bases:
                ns["v"] = 0
                ns["w"] = 7

            def post(self, _c=cnt, _b=bases):
                if self.v == 13:
                    raise ValueError("initialisation refuses v == 13")
                _c["inits"] += 1
                for b in _b:      # parents' counters count too
                    pass
            ns["__post_init__"] = post
            cls = dataclass(eq=False)(type(f"K{i}", bases, ns))
        else:
            def init(self, v=0, w=7, _c=cnt):
                self.v = v
                self.w = w
                if v == 13:
                    raise ValueError("initialisation refuses v == 13")
                _c["inits"] += 1
            cls = type(f"K{i}", bases, {"__init__": init})
        if nd["decorated"]:
            cls = symbol(cls)
        classes.append(cls)
    return classes, counters


def check(case) -> Outcome:
    nodes = case["nodes"]
    n_reg_before = len(P.symbols_registry)
    classes, counters = _make_classes(nodes)
    Bare = symbol(type("Bare", (), {}))
    BareSub = type("BareSub", (Bare,), {})
    bare_model = []
    log = []            # every object constructed concretely; kept alive for the whole case
    model = []          # since the last clear
    sym_seen = False
    nontrivial = False
    cls_set = set()
    feats = []
    src = [Ent(k=1, a=0), Ent(k=2, a=1), Ent(k=3, a=2), Ent(k=4, a=3)]
    log.extend(src)     # dataset of the inference rule (registered instances of an unrelated class)
    try:
        for step, op in enumerate(case["ops"]):
            k = op[0]
            if k == "new":
                cls = classes[op[1]]

                def make(cls=cls, op=op):
                    if op[2] == "positional":
                        return cls(op[3])
                    if op[2] == "keyword":
                        return cls(v=op[3])
                    return cls()
                where = op[4] if len(op) > 4 else "here"
                if where == "here":
                    o = make()
                else:
                    # constructed by another thread, which never entered a block ("outside symbolic mode"), while this
                    # flow of control is inside one (or not); started and joined here, so the schedule is the harness's
                    box = {}

                    def work():
                        try:
                            box["o"] = make()
                        except Exception as e:
                            box["e"] = e
                    th = threading.Thread(target=work)
                    if where == "thread":
                        th.start(); th.join()
                    else:
                        with (symbolic_mode() if where == "thread_query" else rule_mode()):
                            th.start(); th.join()
                    if "e" in box:
                        return fail("exception", f"step {step} {op}: constructing K{op[1]} in another thread raised "
                                                 f"{type(box['e']).__name__}: {box['e']}", classes=sorted(cls_set))
                    o = box["o"]
                    cls_set.add("new_in_" + where)
                if type(o) is not cls or o.v != (op[3] if op[2] != "defaults" else 0) or o.w != 7:
                    return fail("concrete_construction", f"step {step} {op}: constructing K{op[1]} outside symbolic mode gave "
                                                         f"{o!r} of type {type(o).__name__}", classes=sorted(cls_set))
                log.append(o)
                model.append(o)
                cls_set.add("new_" + op[2])
                cls_set.add("decorated" if nodes[op[1]]["decorated"] else "undecorated_subclass")
            elif k == "sym":
                cls = classes[op[1]]
                inits = [c["inits"] for c in counters]
                reg = _registry_ids()
                ctx = symbolic_mode() if op[2] == "query" else rule_mode()
                before_kind = op[4] if len(op) > 4 else "plain"
                with ctx:
                    if before_kind != "plain":
                        # something was evaluated in this very block first, and did not run to completion: user code
                        # raised (and was handled here), the consumer stopped after one result, or the(...) raised
                        x_ = let(Ent, domain=list(src))
                        try:
                            if before_kind == "after_raise":
                                FAULT.update(armed=True, calls=0, at=2)
                                try:
                                    list(an(entity(x_, p_flaky(x_, 0))).evaluate())
                                finally:
                                    FAULT.update(armed=False, calls=0, at=0)
                            elif before_kind == "after_abandon":
                                it_ = an(entity(x_, x_.a >= 0)).evaluate()
                                next(it_, None)
                                it_.close()
                            else:
                                the(entity(x_, x_.a >= 0)).evaluate()
                        except (InjectedFault, MultipleSolutionFound, NoSolutionFound):
                            pass            # (inside rule_mode() the small query selects an inferred variable: no solution)
                        cls_set.add("symbolic_" + before_kind)
                    s = cls() if op[3] == "noargs" else cls(v=1)
                if not isinstance(s, SymbolicExpression):
                    return fail("symbolic_construction_built_instance", f"step {step} {op}: K{op[1]} constructed inside "
                                                                        f"{op[2]} mode returned {s!r}", classes=sorted(cls_set))
                if [c["inits"] for c in counters] != inits:
                    return fail("symbolic_construction_ran_init", f"step {step} {op}: the class's initialisation ran during "
                                                                  f"symbolic construction", classes=sorted(cls_set))
                if _registry_ids() != reg:
                    return fail("symbolic_construction_registered", f"step {step} {op}: symbolic construction changed the "
                                                                    f"registry", classes=sorted(cls_set))
                sym_seen = True
                cls_set.add("symbolic_" + op[2])
            elif k == "infer":
                cls = classes[op[1]]
                x = let(Ent, domain=list(src))
                with rule_mode():
                    q = infer(entity(cls(v=x.a), x.a >= op[2]))
                res = list(q.evaluate())
                want = [e.a for e in src if e.a >= op[2]]
                if sorted(r.v for r in res if type(r) is cls) != sorted(want) or len(res) != len(want):
                    return fail("inference", f"step {step} {op}: inferred {res}, expected v in {want}", classes=sorted(cls_set))
                log.extend(res)
                model.extend(res)
                cls_set.add("inference")
            elif k == "clear":
                for c in list(Variable._cache_.values()):
                    c.clear()
                Variable._cache_.clear()
                model = []
                bare_model = []
                cls_set.add("clear")
            elif k == "new_bare":
                o = (Bare if op[1] == "base" else BareSub)()
                if type(o) not in (Bare, BareSub):
                    return fail("concrete_construction", f"step {step} {op}: a field-less class constructed outside symbolic "
                                                         f"mode gave {o!r}", classes=sorted(cls_set))
                log.append(o)
                bare_model.append(o)
                cls_set.add("fieldless_class")
            elif k == "query_bare":
                try:
                    res = list(an(entity(let(Bare))).evaluate())
                except Exception as e:
                    return fail("exception", f"step {step} {op}: {type(e).__name__}: {e}", classes=sorted(cls_set))
                if Counter(map(id, res)) != Counter(map(id, bare_model)):
                    return fail("missing_instances" if len(res) < len(bare_model) else "extra_instances",
                                f"step {step} {op}: no-domain variable of a field-less class returned {len(res)} instance(s), "
                                f"{len(bare_model)} were constructed", classes=sorted(cls_set), features=sorted(cls_set))
            elif k == "new_raising":
                try:
                    classes[op[1]](13)
                    return fail("concrete_construction", f"step {step} {op}: the initialisation did not raise", classes=sorted(cls_set))
                except ValueError:
                    pass
                cls_set.add("construction_raised_earlier")
            elif k == "query_partial":
                cls = classes[op[1]]
                if op[2] == "let":
                    pv = let(cls)
                else:
                    with symbolic_mode():
                        pv = cls()
                try:
                    if op[3] == "the":
                        try:
                            the(entity(pv)).evaluate()
                        except (MultipleSolutionFound, NoSolutionFound):
                            pass
                    else:
                        it_ = an(entity(pv)).evaluate()
                        for _r in it_:
                            break
                        if op[3] == "close":
                            it_.close()
                        log.append(it_)           # (with "break" the iterator stays referenced and unfinished)
                except Exception as e:
                    return fail("exception", f"step {step} {op}: {type(e).__name__}: {e}", classes=sorted(cls_set))
                cls_set.add("evaluation_given_up_" + op[3])
            elif k == "query":
                cls = classes[op[1]]
                if op[2] == "let":
                    q = an(entity(let(cls)))
                elif op[2] == "rule_block":
                    with rule_mode():
                        q = an(cls())            # declared inside rule_mode(): resolved from the registry at evaluation
                elif op[2] == "rule_block_entity":
                    with rule_mode():
                        q = an(entity(cls()))
                elif op[2] == "block":
                    with symbolic_mode():
                        q = an(cls())
                else:
                    with symbolic_mode():
                        q = an(entity(cls()))
                try:
                    res = list(q.evaluate())
                except Exception as e:
                    return fail("exception", f"step {step} {op}: {type(e).__name__}: {e}", classes=sorted(cls_set))
                want = [o for o in model if isinstance(o, cls)]
                if Counter(map(id, res)) != Counter(map(id, want)):
                    missing = [o for o in want if id(o) not in set(map(id, res))]
                    extra = [o for o in res if id(o) not in set(map(id, want))]
                    kind = "missing_instances" if missing else ("extra_instances" if extra else "instance_twice")
                    return fail(kind, f"step {step} {op}: no-domain variable of K{op[1]} returned "
                                      f"{[type(o).__name__ + ':' + str(getattr(o, 'v', '?')) for o in res]}, expected "
                                      f"{[type(o).__name__ + ':' + str(o.v) for o in want]} (history {case['ops'][:step]})",
                                classes=sorted(cls_set), nontrivial=nontrivial, features=sorted(cls_set))
                kinds = {type(o) for o in want}
                if len(kinds) >= 2 and any(not nodes[classes.index(t)]["decorated"] for t in kinds) and sym_seen:
                    nontrivial = True
                cls_set.add("query_" + op[2])
                if "clear" in cls_set:
                    cls_set.add("query_after_clear")
    finally:
        del P.symbols_registry[n_reg_before:]
    return Outcome(True, nontrivial=nontrivial, classes=sorted(cls_set))


def _registry_ids():
    out = set()
    for t, cache in Variable._cache_.items():
        for v in cache.flat_cache.values.values():
            out.add((t.__name__, id(v.value)))
    return out


def render(case):
    return {"hierarchy": [f"K{i}({'K%d' % n['parent'] if n['parent'] is not None else 'object'}) "
                          f"{'@symbol ' if n['decorated'] else ''}{n['kind']}" for i, n in enumerate(case["nodes"])],
            "history": case["ops"]}
