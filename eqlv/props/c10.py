"""C10 - for_all yields exactly the bindings whose condition holds for every value.

Generator : free variables F (1-2), a universal variable u with a NON-EMPTY domain U of 1-4 objects (also the docs' form
            for_all(u.f, ...) over an attribute expression); a condition c over F + {u} in four classes - mentions both,
            only u, only F, neither (constant) - including disjunctions, conjunctions, negations; used alone and combined
            as and_(d, for_all(u, c)), and_(for_all(u, c), d) or as two top-level conditions, with d over F.
            Selected: the free variables.
Oracle    : {f in Prod(F) | d(f) and all(c(f, w) for w in U)} as a set (multiset: all free variables are selected);
            3-way with caching disabled.
"""
from __future__ import annotations

from hypothesis import strategies as st

from .. import ast as A
from ..runner import Outcome, fail, open_features
from ..strategies import Cfg, Ctx, draw_dataset, cond_tree, template_cond, leaf, chance
from ..world import build_entities
from ..qcheck import reference_rows, run_query, compare_sets, render_query, var_domains

ID = "C10"
TITLE = "for_all yields exactly the bindings whose condition holds for every value"
TECHNIQUE = "property-based testing (Hypothesis) against a Python all(...) reference, caching on and off"
RULE = ("cases = (dataset, 1-2 free variables, universal variable with non-empty domain, condition tree c in the classes "
        "both/only-u/only-F/constant, optional outer condition d combined before/after/top-level) drawn by Hypothesis; the "
        "rows are compared with the universally quantified Python statement, with caching enabled and disabled. "
        "Non-trivial = |U| >= 2, c mentions both u and a free variable, and the result is a non-empty proper subset of the "
        "free product; distinct = canonical JSON.")
BUDGET = {"quick": (8, 600), "thorough": (16, 6000)}
ASSUMPTIONS = ["the universal variable's domain is non-empty (the statement excludes the empty case)"]


def _cfg():
    avoid = open_features()
    return Cfg(nvars=(2, 3), pool=(3, 6), dom=(1, 4), profile="falsy" if "falsy_values" not in avoid else "clean",
               max_depth=2, allow_nested_not="not_under_not" not in avoid, noise=False, force_relate=True)


def _only(draw, ctx, vars_):
    """A small condition mentioning only the given variables."""
    if chance(draw, 1, 2) or len(vars_) == 1:
        return leaf(draw, ctx, [draw(st.sampled_from(vars_))])
    k = draw(st.sampled_from(["and", "or"]))
    return [k, "nary", [leaf(draw, ctx, [draw(st.sampled_from(vars_))]), leaf(draw, ctx, [draw(st.sampled_from(vars_))])]]


@st.composite
def _case(draw, tier):
    cfg = _cfg()
    # one case in eight is built around a disjunction whose second operand relates an UNSELECTED free variable to the
    # universal one: which value of that variable makes the condition hold may differ from one universal value to the next
    story = chance(draw, 1, 8)
    nF = 2 if story else draw(st.sampled_from([1, 1, 2]))
    u = nF
    recs = draw_dataset(draw, cfg)
    n = len(recs)
    ctx = Ctx(cfg, recs, nF + 1)
    doms = []
    for v in range(nF + 1):
        hi = min(4 if v == u else 4, n)
        size = draw(st.sampled_from(list(range(1, hi + 1)) + [hi, hi]))
        if story and v >= 1:
            size = max(size, min(hi, draw(st.sampled_from([2, 3, 3, 4]))))
        doms.append(list(draw(st.permutations(list(range(n))))[:size]))
    vars_ = [{"dom": v, "decl": draw(st.sampled_from(["let", "from"])), "type": "Ent"} for v in range(nF + 1)]
    frees = list(range(nF))
    bare_truth = False
    klass = "both" if story else draw(st.sampled_from(["both", "both", "both", "both", "only_u", "only_F", "const"]))
    if story:
        rel = ["cmp", draw(st.sampled_from([">=", "<=", ">", "=="])), ["attr", ["var", 1], draw(st.sampled_from(["a", "b"]))],
               ["attr", ["var", u], draw(st.sampled_from(["a", "b"]))]]
        c = ["or", "nary", [leaf(draw, ctx, [0]), rel]]
        if chance(draw, 1, 4):
            c[2].reverse()
    elif klass == "both":
        shape = draw(st.sampled_from(["leaf", "or", "and", "tree", "not"] + (["or_two_free"] * 2 + ["or_u_vs_two_free"] * 2 if nF == 2 else [])))
        x = draw(st.sampled_from(frees))
        if shape == "leaf":
            c = leaf(draw, ctx, [x, u])
        elif shape == "or":
            c = ["or", "nary", [leaf(draw, ctx, [x, u]), draw(st.sampled_from([leaf(draw, ctx, [x]), leaf(draw, ctx, [u]), leaf(draw, ctx, [x, u])]))]]
            if draw(st.booleans()):
                c[2].reverse()
        elif shape == "and":
            c = ["and", "nary", [leaf(draw, ctx, [x, u]), draw(st.sampled_from([leaf(draw, ctx, [x]), leaf(draw, ctx, [u]), leaf(draw, ctx, [x, u])]))]]
            if draw(st.booleans()):
                c[2].reverse()
        elif shape == "or_two_free":
            # a disjunction whose operands are about DIFFERENT free variables (one of which may then be projected away)
            y = 1 - x
            c = ["or", "nary", [leaf(draw, ctx, draw(st.sampled_from([[x], [x, u]]))), leaf(draw, ctx, [y, u])]]
            if draw(st.booleans()):
                c[2].reverse()
        elif shape == "or_u_vs_two_free":
            # one operand says nothing about the free variables (it is about the universal one only, or a constant), the other
            # is about BOTH of them: where the first holds, every combination of the free variables' values is a candidate
            y = 1 - x
            first = draw(st.sampled_from([leaf(draw, ctx, [u]), leaf(draw, ctx, [u]), ["const", True]]))
            second = draw(st.sampled_from([leaf(draw, ctx, [x, y]),
                                           ["and", "nary", [leaf(draw, ctx, [x, u]), leaf(draw, ctx, draw(st.sampled_from([[y], [y, u]])))]]]))
            c = ["or", "nary", [first, second]]
            if draw(st.booleans()):
                c[2].reverse()
        elif shape == "not":
            c = ["not", "not_", leaf(draw, ctx, [x, u])]
        else:
            c = cond_tree(draw, ctx, 2)
    elif klass == "only_u" and chance(draw, 1, 3):
        # a bare value-typed expression of the universal variable as the whole condition (true when every value is truthy),
        # whose OBJECT is mentioned again, as a comparison operand, in an expression built later (share_terms + later_uses)
        c = ["truth", ["attr", ["var", u], draw(st.sampled_from(["a", "s", "tags", "o"]))]]
        bare_truth = True
    elif klass == "only_u":
        c = _only(draw, ctx, [u])
    elif klass == "only_F":
        c = _only(draw, ctx, frees)
    else:
        c = ["const", draw(st.booleans())]
    fa = ["forall", u, c]
    # the docs' form: the universal operand is an attribute expression of the universal variable (for_all(u.a, ...));
    # the condition then reaches the universal variable through its attributes as before
    if klass in ("both", "only_u") and chance(draw, 1, 3):
        fa = ["forall", u, c, ["attr", ["var", u], draw(st.sampled_from(["a", "b", "s", "ref", "tags"]))]]
    if klass == "both" and len(fa) == 3 and any(recs[i]["kids"] for i in doms[u]) and chance(draw, 1, 5):
        # the universal expression is a flattened collection: for_all(flatten(s.kids), c) quantifies over every element of
        # every s (inside c the universal index then denotes the element)
        fa = ["forall", u, c, ["flat", ["attr", ["var", u], "kids"]]]
    per_binding = False
    if klass == "both" and len(fa) == 3 and chance(draw, 1, 5):
        for i in doms[0]:
            if not recs[i]["kids"]:
                recs[i]["kids"] = [draw(st.integers(0, n - 1))]      # (a non-empty collection for every candidate)
        # the universal expression depends on a FREE variable: "every kid of THAT x" - for_all(flatten(x.kids), c(x, kid)),
        # reached with x bound by a condition that comes first
        c = leaf(draw, ctx, [0, u])
        fa = ["forall", u, c, ["flat", ["attr", ["var", 0], "kids"]]]
        per_binding = True
    combine = draw(st.sampled_from(["alone", "alone", "d_first", "d_last", "top_level"]))
    if per_binding:
        combine = draw(st.sampled_from(["d_first", "top_level"]))
    if combine == "alone":
        cond = fa
        split = False
    else:
        d = _only(draw, ctx, frees)
        if per_binding:
            # (the condition that comes first BINDS x on every true path: a leaf on x conjoined - a disjunction that merely
            # mentions x may hold without binding it)
            d = ["and", "nary", [leaf(draw, ctx, [0]), d]]
        cond = ["and", "nary", [d, fa] if combine != "d_last" else [fa, d]]
        split = combine == "top_level"
    twice = False
    if not per_binding and len(fa) == 3 and klass == "both" and chance(draw, 1, 4):
        # fa = for_all(u, c); and_(or_(fa, d1), fa) / and_(or_(fa, d1), or_(fa, d2)): ONE for_all object stands at two places
        d1, d2 = _only(draw, ctx, frees), _only(draw, ctx, frees)
        first = ["or", "nary", [fa, d1] if draw(st.booleans()) else [d1, fa]]
        second = fa if draw(st.booleans()) else ["or", "nary", [fa, d2] if draw(st.booleans()) else [d2, fa]]
        cond = ["and", "nary", [first, second] if draw(st.booleans()) else [second, first]]
        split, combine, twice = False, "twice", True
    elem_free = False
    if (nF == 2 and not per_binding and not twice and not story and klass == "both" and len(fa) == 3 and chance(draw, 1, 2)
            and all(len(set(recs[i]["kids"])) == len(recs[i]["kids"]) for i in doms[0])):
        # the second free "variable" is an element flattened out of the first one's collection: e = flatten(x.kids);
        # set_of([x, e], for_all(u, c(e, u))) - the bindings are the (x, element) pairs
        c = leaf(draw, ctx, [1, u])
        fa = ["forall", u, c]
        comb_ = draw(st.sampled_from(["alone", "alone", "d_first", "d_last"]))
        d = leaf(draw, ctx, draw(st.sampled_from([[1], [0], [0, 1]])))
        cond = fa if comb_ == "alone" else ["and", "nary", [d, fa] if comb_ == "d_first" else [fa, d]]
        split, combine, elem_free = False, "elem_" + comb_, True
    order = list(draw(st.permutations(frees)))
    if story:
        order = [0]
    elif elem_free:
        pass
    elif nF == 2 and chance(draw, 1, 3):
        order = order[:1]        # projection onto one of the two free variables (compared as a set)
    sel = [["var", v] for v in order]
    case = {"ents": recs, "doms": doms, "vars": vars_, "cond": cond, "sel": sel,
            "desc": "entity" if (len(sel) == 1 and draw(st.booleans())) else "set_of", "quant": "an",
            "split_top": split, "dom_kind": "list", "klass": klass, "combine": combine, "u": u}
    if twice:
        case["one_forall_object_twice"] = True
    if elem_free:
        case["flat_var"] = [1, 0]
        return case
    if len(fa) > 3 and fa[3][0] == "attr" and chance(draw, 1, 3):
        case["universal_mentioned_later"] = True
    if bare_truth and len(fa) == 3:
        case["share_terms"] = True
        case["later_uses"] = True
    inner = [n for n in A.walk(cond) if n[0] == "forall"][0][2]
    if not A.has_kind(cond, "not") and A.has_kind(inner, "cmp", "in") and not (len(fa) > 3 and fa[3][0] == "flat") and chance(draw, 1, 4):
        # the comparison objects of the quantified condition were used before, in an ordinary query over the same
        # variables (where u is an ordinary variable), e.g. as an operand of or_ - which asks them for false results too
        other = leaf(draw, ctx, [draw(st.integers(0, nF - 1))])
        parts = [inner, other] if draw(st.booleans()) else [other, inner]
        case["prelude_sharing_comparisons"] = [draw(st.sampled_from(["or", "or", "and"])), "nary", parts]
        if chance(draw, 1, 4):
            case["prelude_sharing_comparisons"] = inner       # the earlier query's whole condition: an(entity(x, c))
    return case


def strategy(tier):
    return _case(tier)


def check(case) -> Outcome:
    from entity_query_language.cache_data import enable_caching, disable_caching
    objs = build_entities(case["ents"])
    u = case["u"]
    fa = [n for n in A.walk(case["cond"]) if n[0] == "forall"][0]
    ref_case = case
    per_binding = len(fa) > 3 and fa[3][0] == "flat" and fa[3][1][1][1] != u
    if len(fa) > 3 and fa[3][0] == "flat" and not per_binding:
        # reference: the universal variable ranges over the flattened elements (kids are indices into the dataset)
        import copy
        ref_case = copy.deepcopy(case)
        ref_case["doms"] = [list(d) for d in case["doms"]]
        ref_case["doms"].append([k for i in case["doms"][case["vars"][u]["dom"]] for k in case["ents"][i]["kids"]])
        ref_case["vars"][u] = dict(ref_case["vars"][u], dom=len(ref_case["doms"]) - 1, decl="let")
        ref_case["vars"][u].pop("kw", None)
        for n_ in A.walk(ref_case["cond"]):
            if n_[0] == "forall" and len(n_) > 3:
                del n_[3:]
    if per_binding:
        # reference for "every element of THAT binding's collection": d(f) and all(c(f, x) for x in f[j].kids)
        import itertools
        j = fa[3][1][1][1]
        doms_ = var_domains(case, objs)
        frees_ = [v for v in range(len(case["vars"])) if v != u]
        d_parts = [n_ for n_ in (case["cond"][2] if case["cond"][0] == "and" else []) if n_[0] != "forall"]
        expected, n_sat, n_all, seen_ = [], 0, 0, set()
        for combo in itertools.product(*[doms_[v] for v in frees_]):
            env = dict(zip(frees_, combo))
            n_all += 1
            if all(A.eval_cond(d_, env) for d_ in d_parts) and all(A.eval_cond(fa[2], {**env, u: x_}) for x_ in env[j].kids):
                n_sat += 1
                expected.append(tuple(A.eval_term(t, env) for t in case["sel"]))
        U = [x_ for o_ in doms_[j] for x_ in o_.kids]
    elif case.get("flat_var"):
        doms_ = var_domains(case, objs)
        domd_ = {i: d_ for i, d_ in enumerate(doms_)}
        expected, n_sat, n_all = [], 0, 0
        for x_ in doms_[0]:
            for k_ in x_.kids:
                env = {0: x_, 1: k_}
                n_all += 1
                if A.eval_cond(case["cond"], env, domd_):
                    n_sat += 1
                    expected.append(tuple(A.eval_term(t, env) for t in case["sel"]))
        U = doms_[u]
    else:
        expected, n_sat, n_all = reference_rows(ref_case, objs)
        U = var_domains(ref_case, objs)[u]
    inner_vars = A.cond_vars(fa[2]) | ({u} if u in _mentions(fa[2]) else set())
    mentions_u = u in _mentions(fa[2])
    mentions_f = bool(_mentions(fa[2]) - {u})
    nontrivial = len(U) >= 2 and mentions_u and mentions_f and 0 < n_sat < n_all
    feats = ["klass_" + case["klass"], "combine_" + case["combine"]]
    if A.has_kind(fa[2], "or"):
        feats.append("forall_cond_has_or")
    if A.has_kind(fa[2], "and"):
        feats.append("forall_cond_has_and")
    if A.has_kind(fa[2], "not"):
        feats.append("forall_cond_has_not")
    feats.append(f"free{len(case['vars']) - 1}")
    if len(case["sel"]) < len(case["vars"]) - 1:
        feats.append("projected")
    if per_binding:
        feats.append("universal_expression_depends_on_a_free_variable")
    feats.append(("universal_is_flattened_collection" if fa[3][0] == "flat" else "universal_is_attribute_expression")
                 if len(fa) > 3 else "universal_is_variable")
    classes = list(feats) + [f"U{min(len(U), 4)}"]
    if case.get("prelude_sharing_comparisons") is not None:
        classes.append("comparison_objects_used_in_an_earlier_query")
    if case.get("universal_mentioned_later"):
        classes.append("universal_expression_object_mentioned_in_a_later_query")
    if case.get("flat_var"):
        feats.append("free_variable_is_a_flattened_element")
        classes.append("free_variable_is_a_flattened_element")
    if case.get("one_forall_object_twice"):
        feats.append("one_forall_object_at_two_places")
        classes.append("one_forall_object_at_two_places")
    for caching in (True, False):
        (enable_caching if caching else disable_caching)()
        try:
            got, _ = run_query(case, objs)
        except Exception as e:
            return fail("exception", f"caching={caching}: {type(e).__name__}: {e}; expected {expected}",
                        nontrivial=nontrivial, classes=classes, features=feats)
        finally:
            enable_caching()
        bad = compare_sets(expected, got, len(case["sel"]) == len(case["vars"]) - 1)
        if bad:
            return fail(bad[0], f"caching={caching}: {bad[1]}", nontrivial=nontrivial, classes=classes, features=feats)
    return Outcome(True, nontrivial=nontrivial, classes=classes, features=feats)


def _mentions(c) -> set:
    """Variables mentioned anywhere in c (cond_vars removes bound universals; here nothing is bound)."""
    s = set()
    for n in A.walk(c):
        if n[0] not in ("and", "or", "not", "forall", "const", "true"):
            s |= A.cond_vars(n)
    return s


def render(case):
    r = render_query(case)
    r["universal"] = f"v{case['u']}"
    if case.get("prelude_sharing_comparisons") is not None:
        r["earlier_query_sharing_the_comparison_objects"] = A.r_cond(case["prelude_sharing_comparisons"])
    return r
