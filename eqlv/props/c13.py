"""C13 - predicate-form terms equal the explicit form and filter by type.

Generator : mixed-type domains (instances of Ent, of its decorated and undecorated subclasses, of unrelated classes, ints,
            strings); terms T(From(d), *positional, **keyword) whose values are constants (falsy ones included), another
            variable, or a nested T'(From(d'), ...) term (depth <= 2); T in {Ent, EntSub, EntPlain, Other}; wrapped as
            an(term), an(entity(term)), a(term, extra condition) or selected together with the variable it refers to.
Oracle    : 3-way - predicate form vs the explicit query an(entity(x := let(T, d), x.f == v, ...)) built from the same
            spec vs [o for o in d if isinstance(o, T) and all(o.f == v ...)] (nested term: there is an m in d' matching
            it with o.f is m).  Type filter: for every declaration style the variable ranges over exactly
            [o for o in d if isinstance(o, T)], in order.
"""
from __future__ import annotations

from hypothesis import strategies as st

from .. import ast as A
from ..runner import Outcome, fail
from ..strategies import Cfg, draw_dataset, chance, PROFILES
from ..world import build_entities, CLASSES, enc, dec, Ent
from ..qcheck import ident, show_rows, compare_lists, compare_sets

from entity_query_language import an, a, entity, set_of, let, symbolic_mode, From

ID = "C13"
TITLE = "Predicate-form terms equal the explicit form and filter by type"
TECHNIQUE = "differential property-based testing (Hypothesis): predicate form vs explicit form vs Python reference"
RULE = ("cases = (mixed-type domain, class T, fields given by keyword and/or positionally after From(d) with constant, "
        "variable or nested-term values, wrapper) drawn by Hypothesis; the predicate-form result is compared with the "
        "explicit query and with the Python filter (as ordered lists for single-variable terms). Non-trivial = the domain "
        "contains a non-T object and a subclass instance, and a field constraint rejects >= 1 instance of T; distinct = "
        "canonical JSON.")
BUDGET = {"quick": (8, 400), "thorough": (16, 4000)}
ASSUMPTIONS = ["From(...) is the first positional argument of a predicate-form term",
               "entities compare by identity (eq=False)"]

# ("dbl" is a computed property, "w" a keyword-only field: both only ever given by keyword)
FIELDS = {"EntKw": ["k", "a", "b", "s", "tags", "o", "ref", "w", "dbl"], "Ent": ["k", "a", "b", "s", "tags", "o", "ref", "dbl"], "EntSubSub": ["k", "a", "b", "s", "tags", "o", "ref", "dbl"], "EntV": ["k", "a", "b", "s", "tags", "o", "ref", "dbl"], "EntSub": ["k", "a", "b", "s", "tags", "o", "ref", "dbl"],
          "EntPlain": ["k", "a", "b", "s", "tags", "o", "ref", "dbl"], "Other": ["k", "a", "ref"]}


def _value_for(draw, field, P, recs, depth, doms):
    if field == "k":
        return ["const", draw(st.integers(1, len(recs)))]
    if field in ("a", "b", "w"):
        if chance(draw, 1, 8):
            return ["const", enc(draw(st.booleans()))]       # a == True holds for 1 only, a == False for 0 only
        return ["const", draw(st.sampled_from(P["ints"]))]
    if field == "dbl":
        return ["const", 2 * draw(st.sampled_from(P["ints"]))]
    if field == "s":
        return ["const", draw(st.sampled_from(P["strs"]))]
    if field == "tags":
        return ["const", enc(tuple(draw(st.lists(st.sampled_from(P["ints"]), max_size=2))))]
    if field == "o":
        # (True / False are values like any other: o == False holds for False and 0, not for None, '' or ())
        return ["const", enc(draw(st.sampled_from(P["anys"] + [True, False, False])))]
    # ref: a nested term or a variable
    kind = draw(st.sampled_from(["nested", "nested", "var"])) if depth > 0 else "var"
    if kind == "var":
        return ["uvar", draw(st.integers(0, len(doms) - 1))]
    return ["term", _term(draw, P, recs, depth - 1, doms)]


def _term(draw, P, recs, depth, doms):
    cls = draw(st.sampled_from(["Ent", "Ent", "Ent", "EntSub", "EntPlain", "EntV", "EntKw", "EntKw", "Other"]))
    fields = FIELDS[cls]
    npos = draw(st.sampled_from([0, 0, 0, 1, 2]))
    npos = min(npos, 2 if cls != "Other" else 2)
    pos = [_value_for(draw, fields[i], P, recs, 0, doms) for i in range(npos)]
    rest = fields[npos:]
    nkw = draw(st.integers(0, min(3, len(rest)))) if (npos or chance(draw, 5, 6)) else 0
    kws = list(draw(st.permutations(rest))[:nkw])
    kw = [[f, _value_for(draw, f, P, recs, depth, doms)] for f in kws]
    return {"cls": cls, "dom": draw(st.integers(0, len(doms) - 1)), "pos": pos, "kw": kw}


@st.composite
def _case(draw, tier):
    cfg = Cfg(profile="falsy", pool=(2, 6))
    P = PROFILES["falsy"]
    recs = draw_dataset(draw, cfg)
    n_ent = len(recs)
    # unrelated objects: Other (decorated), Foreign (undecorated)
    extra = [{"cls": "Other", "k": 1 + i, "a": draw(st.sampled_from(P["ints"])), "ref": draw(st.integers(0, n_ent - 1))}
             for i in range(draw(st.integers(0, 2)))]
    extra += [{"cls": "Foreign", "k": 50}] * draw(st.integers(0, 1))
    recs = recs + extra
    n = len(recs)
    doms = []
    for _ in range(draw(st.integers(1, 2))):
        size = draw(st.integers(1, n))
        doms.append(list(draw(st.permutations(list(range(n))))[:size]))
    scalars = draw(st.lists(st.sampled_from([0, 7, "str"]), max_size=2))   # plain scalars inside the domain
    term = _term(draw, P, recs, 2, doms)
    # the class of the term has an instance in the term's domain more often than chance alone gives
    def _ensure(t):
        if t["cls"] in ("EntKw", "EntSub", "EntPlain", "EntV") and chance(draw, 2, 3):
            cand = [i for i in doms[t["dom"]] if i < n_ent]
            if cand and not any(recs[i]["cls"] == t["cls"] for i in cand):
                recs[draw(st.sampled_from(cand))]["cls"] = t["cls"]
        for v in t["pos"] + [x for _, x in t["kw"]]:
            if v[0] == "term":
                _ensure(v[1])
    _ensure(term)
    wrapper = draw(st.sampled_from(["an_term", "an_entity", "a_extra", "with_var"]))
    # one From(...) object handed to several terms: an earlier term of this class over the same object, and every nested
    # term over the same domain
    share_from = draw(st.sampled_from([None, None, None, "Ent", "EntSub", "Other"]))
    return {"share_from": share_from, "ents": recs, "doms": doms, "scalars": scalars, "term": term, "wrapper": wrapper,
            "dom_kind": draw(st.sampled_from(["list", "tuple", "gen"])),
            "decl": draw(st.sampled_from(["let", "from", "from_entity"]))}


def strategy(tier):
    return _case(tier)


# ---- reference -----------------------------------------------------------------------------------------

def _containers(case, objs):
    out = []
    for j, d in enumerate(case["doms"]):
        items = [objs[i] for i in d]
        if j == 0:
            for s in case["scalars"]:
                items.insert(len(items) // 2, s)
        out.append(items)
    return out


def _matches(o, term, conts, uenv):
    cls = CLASSES[term["cls"]]
    if not isinstance(o, cls):
        return False
    fields = FIELDS[term["cls"]]
    pairs = [(fields[i], v) for i, v in enumerate(term["pos"])] + [(f, v) for f, v in term["kw"]]
    for f, v in pairs:
        got = getattr(o, f)
        if v[0] == "const":
            if not (got == dec(v[1])):
                return False
        elif v[0] == "uvar":
            if uenv is None:
                if not any(got == m for m in conts[v[1]] if isinstance(m, Ent)):
                    return False
            elif not (got == uenv[v[1]]):
                return False
        else:
            if not any(_matches(m, v[1], conts, uenv) and got == m for m in conts[v[1]["dom"]]):
                return False
    return True


def _uvars(term):
    s = set()
    for _, v in [(None, x) for x in term["pos"]] + [(f, x) for f, x in term["kw"]]:
        if v[0] == "uvar":
            s.add(v[1])
        elif v[0] == "term":
            s |= _uvars(v[1])
    return s


# ---- building --------------------------------------------------------------------------------------------

def _mk(cont, kind):
    if kind == "tuple":
        return tuple(cont)
    if kind == "gen":
        return (x for x in cont)
    return list(cont)


def _build_term(term, conts, kind, U, froms=None):
    """Inside symbolic_mode: the predicate-form term.  With `froms` (a dict), ONE From object per domain is built and
    handed to every term over that domain (src = From(world.bodies); Handle(src); Container(src))."""
    cls = CLASSES[term["cls"]]

    def val(v):
        if v[0] == "const":
            return dec(v[1])
        if v[0] == "uvar":
            return U[v[1]]
        return _build_term(v[1], conts, kind, U, froms)
    args = [val(v) for v in term["pos"]]
    kwargs = {f: val(v) for f, v in term["kw"]}
    if froms is not None:
        if term["dom"] not in froms:
            froms[term["dom"]] = From(_mk(conts[term["dom"]], kind))
        src = froms[term["dom"]]
    else:
        src = From(_mk(conts[term["dom"]], kind))
    return cls(src, *args, **kwargs)


def _build_explicit(term, conts, kind, U, conds):
    """Inside symbolic_mode: variable + explicit equality conditions appended to conds; returns the variable."""
    cls = CLASSES[term["cls"]]
    x = let(cls, domain=_mk(conts[term["dom"]], kind))
    fields = FIELDS[term["cls"]]
    pairs = [(fields[i], v) for i, v in enumerate(term["pos"])] + [(f, v) for f, v in term["kw"]]
    for f, v in pairs:
        if v[0] == "const":
            conds.append(getattr(x, f) == dec(v[1]))
        elif v[0] == "uvar":
            conds.append(getattr(x, f) == U[v[1]])
        else:
            inner = _build_explicit(v[1], conts, kind, U, conds)
            conds.append(getattr(x, f) == inner)
    return x


def check(case) -> Outcome:
    objs = build_entities(case["ents"])
    conts = _containers(case, objs)
    term = case["term"]
    cls = CLASSES[term["cls"]]
    kind = case["dom_kind"]
    uv = sorted(_uvars(term))
    wrapper = case["wrapper"]
    if uv and wrapper != "with_var":
        wrapper = "with_var"
    if not uv and wrapper == "with_var":
        wrapper = "an_entity"
    dom = conts[term["dom"]]
    classes = [term["cls"], "wrapper_" + wrapper, "dom_" + kind,
               "positional" if term["pos"] else "keyword_only",
               "nested" if any(v[0] == "term" for v in term["pos"] + [x for _, x in term["kw"]]) else "flat"]
    feats = list(classes)
    typed = [o for o in dom if isinstance(o, cls)]
    has_foreign = any(not isinstance(o, cls) for o in dom)
    has_sub = any(type(o) is not cls and isinstance(o, cls) for o in dom)

    # ---- clause 2: the variable ranges over exactly the instances of T, in order, however declared
    for decl in ("let", "from", "from_entity"):
        with symbolic_mode():
            if decl == "let":
                q = an(entity(let(cls, domain=_mk(dom, kind))))
            elif decl == "from":
                q = an(cls(From(_mk(dom, kind))))
            else:
                q = an(entity(cls(From(_mk(dom, kind)))))
        try:
            got = [(r,) for r in q.evaluate()]
        except Exception as e:
            return fail("exception", f"type filter [{decl}]: {type(e).__name__}: {e}", classes=classes, features=feats)
        bad = compare_lists([(o,) for o in typed], got)
        if bad:
            return fail("type_filter_" + bad[0], f"variable of type {term['cls']} declared by {decl} over {dom}: {bad[1]}",
                        classes=classes, features=feats + ["type_filter"])

    # ---- clause 1: predicate form == explicit form == python
    if wrapper == "with_var":
        ucls = CLASSES["Ent"]
        udoms = {j: [m for m in conts[j] if isinstance(m, ucls)] for j in uv}
        import itertools
        expected = []
        for combo in itertools.product(*[udoms[j] for j in uv]):
            uenv = dict(zip(uv, combo))
            for o in dom:
                if _matches(o, term, conts, uenv):
                    expected.append(tuple(combo) + (o,))
    else:
        expected = [(o,) for o in dom if _matches(o, term, conts, None)]
    rejected = len(typed) - len({id(r[-1]) for r in expected})
    nontrivial = has_foreign and has_sub and rejected >= 1 and bool(term["pos"] or term["kw"])

    def run(form):
        with symbolic_mode():
            U = {j: let(CLASSES["Ent"], domain=_mk(conts[j], kind)) for j in uv}
            if form == "predicate":
                froms = {} if (case.get("share_from") and kind != "gen") else None
                if froms is not None:
                    # ... and an earlier term over the same From object (of the same or of another class) was evaluated
                    froms[term["dom"]] = From(_mk(conts[term["dom"]], kind))
                    earlier = an(entity(CLASSES[case["share_from"]](froms[term["dom"]])))
                t = _build_term(term, conts, kind, U, froms)
                if wrapper == "an_term":
                    q = an(t)
                elif wrapper == "an_entity":
                    q = an(entity(t))
                elif wrapper == "a_extra":
                    q = a(t, t.k >= 0)
                else:
                    q = an(set_of([U[j] for j in uv] + [t]))
                sel = [U[j] for j in uv] + [t]
            else:
                conds = []
                x = _build_explicit(term, conts, kind, U, conds)
                if wrapper == "a_extra":
                    conds.append(x.k >= 0)
                if wrapper == "with_var":
                    q = an(set_of([U[j] for j in uv] + [x], *conds))
                else:
                    q = an(entity(x, *conds))
                sel = [U[j] for j in uv] + [x]
        res = list(q.evaluate())
        if wrapper == "with_var":
            return [tuple(r[e] for e in sel) for r in res]
        return [(r,) for r in res]

    results = {}
    for form in ("predicate", "explicit"):
        try:
            results[form] = run(form)
        except Exception as e:
            return fail("exception_" + form, f"{form} form of {render(case)['term']}: {type(e).__name__}: {e}; expected "
                                             f"{show_rows(expected)}", nontrivial=nontrivial, classes=classes, features=feats)
    # ordered, duplicate-free comparison only when no variable is hidden: a nested term's own variable is not selected,
    # so (as for any projection, cf. C02) a row may repeat once per matching inner object - e.g. two value-equal objects
    nested_hidden = any(v[0] == "term" for v in term["pos"] + [x for _, x in term["kw"]])
    single = wrapper != "with_var" and not nested_hidden
    for form in ("predicate", "explicit"):
        bad = compare_lists(expected, results[form]) if single else compare_sets(expected, results[form], False)
        if bad:
            other = "explicit" if form == "predicate" else "predicate"
            return fail(form + "_" + bad[0], f"{form} form of {render(case)['term']} [{wrapper}]: {bad[1]}; the {other} form "
                                             f"gives {show_rows(results[other])}", nontrivial=nontrivial, classes=classes,
                        features=feats + [form])
    return Outcome(True, nontrivial=nontrivial, classes=classes, features=feats)


def _r_term(t):
    def rv(v):
        if v[0] == "const":
            return repr(dec(v[1]))
        if v[0] == "uvar":
            return f"y{v[1]}"
        return _r_term(v[1])
    args = [f"From(dom{t['dom']})"] + [rv(v) for v in t["pos"]] + [f"{f}={rv(v)}" for f, v in t["kw"]]
    return f"{t['cls']}({', '.join(args)})"


def render(case):
    return {"entities": [f"#{i}:{r['cls']}(k={r['k']},a={r.get('a')},b={r.get('b')},s={r.get('s')!r},o={dec(r['o']) if 'o' in r else None!r},ref=#{r.get('ref')})"
                         for i, r in enumerate(case["ents"])],
            "doms": case["doms"], "scalars_in_dom0": case["scalars"], "dom_kind": case["dom_kind"],
            "term": _r_term(case["term"]), "wrapper": case["wrapper"]}
