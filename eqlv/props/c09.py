"""C09 - evaluation gives the same answer inside and outside a symbolic block.

Generator : configuration grid x generated data: ambient in {none, symbolic_mode(), rule_mode()} x quantifier in
            {an, the (steered to 0 / 1 / >=2 solutions), infer} x condition (plain comparisons, @predicate function,
            Predicate subclass, HasType, predicates under not_) x head (plain variable; instance construction
            T(f=e..) in rule mode).  The query is always BUILT in the block its construction needs; a fresh build is
            EVALUATED under each ambient mode; for an/infer the result iterator is also started in one ambient mode and
            continued in another (none>query, none>rule, query>none, rule>query).
Oracle    : the outcome (value list / single value / exception class) under the query and rule ambient modes equals the
            outcome under no ambient mode and the Python reference; inferred results are real instances of the head
            class (never expressions); the ambient mode is unchanged after the call.
"""
from __future__ import annotations

import copy

from hypothesis import strategies as st

from .. import ast as A
from ..runner import Outcome, fail, open_features
from ..strategies import Cfg, query_case, chance
from ..world import build_entities, CLASSES, CONSTRUCTED
from ..build import build_query, rows_of, declare_vars, build_infer
from ..qcheck import reference_rows, case_features, render_query, ident, show_rows, satisfying
from .c06 import effective_case

from entity_query_language import symbolic_mode, rule_mode, MultipleSolutionFound, NoSolutionFound
from entity_query_language.symbolic import in_symbolic_mode, SymbolicExpression
from entity_query_language.enums import EQLMode

ID = "C09"
TITLE = "Evaluation gives the same answer inside and outside a symbolic block"
TECHNIQUE = "differential property-based testing (Hypothesis): ambient mode none vs query vs rule, plus reference evaluator"
RULE = ("cases = (dataset, query or rule, quantifier an|the|infer, solution-count steering for `the`) drawn by Hypothesis; "
        "a fresh build is evaluated with no ambient block, inside symbolic_mode() and inside rule_mode(); outcomes must "
        "agree with each other and with the reference. Non-trivial = the condition contains a predicate or the head "
        "constructs an instance (every case is evaluated under the two non-empty ambient modes); distinct = canonical JSON.")
BUDGET = {"quick": (8, 250), "thorough": (16, 3000)}
ASSUMPTIONS = ["queries are built in the block their construction needs and evaluated in the ambient block under test"]


def _cfg():
    avoid = open_features()
    return Cfg(nvars=(1, 2), pool=(2, 4), dom=(1, 3), max_product=9,
               profile="falsy" if "falsy_values" not in avoid else "clean", max_depth=2, allow_empty_cond=False,
               select="all", desc=("entity", "set_of"), force_relate=True, noise=False, dom_kinds=("list",),
               allow_nested_not="not_under_not" not in avoid)


@st.composite
def _case(draw, tier):
    c = draw(query_case(_cfg()))
    # make sure most cases contain a predicate: conjoin / disjoin one
    if not A.has_kind(c["cond"], "fpred", "cpred", "hastype") and chance(draw, 3, 4):
        nv = len(c["vars"])
        v = draw(st.integers(0, nv - 1))
        choices = [["fpred", "p_a_ge", [["var", v], ["const", draw(st.sampled_from([0, 1, 2, 3]))]]],
                   ["cpred", "IsBig", [["var", v]]], ["hastype", ["var", v], draw(st.sampled_from(["EntSub", "EntPlain"]))]]
        if nv == 2:
            choices += [["fpred", "p_a_lt", [["var", 0], ["var", 1]]], ["cpred", "BLess", [["var", 1], ["var", 0]]]]
        p = draw(st.sampled_from(choices))
        if draw(st.booleans()):
            p = ["not", "not_", p]
        c["cond"] = [draw(st.sampled_from(["and", "and", "or"])), "nary", [c["cond"], p] if draw(st.booleans()) else [p, c["cond"]]]
    registry_var = None
    if chance(draw, 1, 3):
        # a variable without a domain (registry) with a field constraint
        registry_var = c["vars"][draw(st.integers(0, len(c["vars"]) - 1))]
        registry_var.update(decl="registry", in_rule=False,
                            kw=[[draw(st.sampled_from(["a", "b"])), draw(st.sampled_from([0, 1, 2]))]])
    if chance(draw, 1, 4):
        # a user predicate that opens a symbolic block of its own while it runs
        v = draw(st.integers(0, len(c["vars"]) - 1))
        # (... and, in the second spelling, also EVALUATES its nested query - which uses a Predicate subclass and HasType -
        # while that block is still open)
        which = draw(st.sampled_from(["p_runs_subquery", "p_runs_subquery_inside"]))
        c["cond"] = ["and", "nary", [["fpred", which, [["var", v], ["const", draw(st.sampled_from([0, 1, 2]))]]], c["cond"]]
                     # (the nested query of the second spelling tests IsBig itself: no outer IsBig beside it, which would
                     # hide a nested predicate that did not run)
                     + ([["cpred", "IsBig", [["var", v]]]] if which == "p_runs_subquery" else [])]
    c["quant"] = draw(st.sampled_from(["an", "the", "the", "infer", "infer"]))
    c["steer"] = draw(st.sampled_from(["keep", "one", "one", "zero"])) if c["quant"] == "the" else "keep"
    c["pick"] = draw(st.integers(0, 20))
    if c["quant"] == "infer" and registry_var is not None:
        # declared in a rule block only as a body variable of a rule (a keyword-constrained variable declared in rule
        # mode and then SELECTED by a query-mode query is a mix of modes nothing documents; an earlier version of this
        # generator produced it, the outcome depended on process state and is not asserted any more)
        registry_var["in_rule"] = draw(st.booleans())
    if c["quant"] == "infer":
        nv = len(c["vars"])
        if nv == 1:
            c["head"] = {"cls": "Made", "args": [["src", ["var", 0]], ["val", draw(st.sampled_from(
                [["attr", ["var", 0], "a"], ["const", 5], ["attr", ["var", 0], "ref"]]))]],
                "positional": draw(st.booleans())}
        else:
            c["head"] = {"cls": "Pair", "args": [["left", ["var", 0]], ["right", ["var", 1]],
                                                 ["tag", draw(st.sampled_from([["attr", ["var", 1], "b"], ["const", 7]]))]],
                         "positional": draw(st.booleans())}
        c["infer_style"] = draw(st.sampled_from(["infer_entity", "infer_direct", "an_in_rule_mode"]))
        # the rule body binds every variable the head mentions (C11 owns heads over variables no condition binds)
        missing = sorted(set(range(nv)) - A.cond_vars(c["cond"]))
        if missing:
            c["cond"] = ["and", "nary", [c["cond"]] + [["cmp", "==", ["var", i], ["var", i]] for i in missing]]
    return c


def strategy(tier):
    return _case(tier)


def _carrier():
    """A small query of its own, to be entered with symbolic_mode(query) / rule_mode(query)."""
    from entity_query_language import an, entity, let
    v = let(CLASSES["Other"], domain=[])
    with symbolic_mode():
        return an(entity(v))


def _ambient(name):
    if name == "query":
        return symbolic_mode()
    if name == "rule":
        return rule_mode()
    if name == "query_carrying_a_query":
        return symbolic_mode(_carrier())         # `with symbolic_mode(query):` - the block also has a current expression
    if name == "rule_carrying_a_query":
        return rule_mode(_carrier())             # `with rule_mode(query):` as used to add conclusions to a query
    import contextlib
    return contextlib.nullcontext()


def _run(case, eff, objs, ambient):
    """Build freshly, evaluate under the ambient mode; returns a comparable outcome."""
    quant = case["quant"]
    if quant == "infer":
        V, conts = declare_vars(eff, objs)
        q = build_infer(V, case["head"], eff.get("cond"), case.get("infer_style", "infer_entity"), eff.get("split_top"))
        built = None
    else:
        built = build_query(eff, objs, quant=quant)
        q = built.q
    first_amb, _, rest_amb = ambient.partition(">")
    rest_amb = rest_amb or first_amb
    modes = {"none": None, "query": EQLMode.Query, "rule": EQLMode.Rule, "query_carrying_a_query": EQLMode.Query,
             "rule_carrying_a_query": EQLMode.Rule}
    mode_ok, mode_after = True, None

    def flags():
        return (in_symbolic_mode(EQLMode.Rule), in_symbolic_mode(EQLMode.Query), in_symbolic_mode())

    def expect(name):
        m = modes[name]
        return (m == EQLMode.Rule, m == EQLMode.Query, m is not None)

    try:
        if quant == "the":
            with _ambient(first_amb):
                try:
                    r = q.evaluate()
                finally:
                    mode_after = flags()
                    mode_ok = mode_after == expect(first_amb)
            out = ("value", [rows_of(built, [r])[0]])
        else:
            # the result iterator is started in the first ambient mode and continued in the second one
            items = []
            with _ambient(first_amb):
                it = q.evaluate()
                try:
                    first = next(it, _END)
                finally:
                    mode_after = flags()
                    mode_ok = mode_after == expect(first_amb)
            if first is not _END:
                items.append(first)
                with _ambient(rest_amb):
                    try:
                        items.extend(it)
                    finally:
                        mode_after = flags()
                        mode_ok = mode_ok and mode_after == expect(rest_amb)
            out = ("rows", rows_of(built, items)) if quant == "an" else ("instances", items)
    except MultipleSolutionFound:
        out = ("multiple", None)
    except NoSolutionFound:
        out = ("none", None)
    except Exception as e:
        out = ("error", f"{type(e).__name__}: {e}")
    return out, mode_ok, mode_after


_END = object()


def _canon(out, head):
    kind, v = out
    if kind in ("rows", "value"):
        return kind, sorted(repr(ident(r)) for r in v)
    if kind == "instances":
        items = []
        for o in v:
            if isinstance(o, SymbolicExpression) or type(o) is not CLASSES[head["cls"]]:
                items.append(("NOT-A-REAL-INSTANCE", type(o).__name__))
            else:
                items.append((type(o).__name__, repr(ident(tuple(getattr(o, k) for k, _ in head["args"])))))
        return kind, sorted(items)
    return kind, v


def check(case) -> Outcome:
    objs = build_entities(case["ents"])
    eff = effective_case(case, objs) if case["quant"] == "the" else case
    feats = case_features(eff) + ["quant_" + case["quant"]]
    expected, n_sat, n_all = reference_rows(eff, objs)
    has_pred = eff.get("cond") is not None and A.has_kind(eff["cond"], "fpred", "cpred", "hastype")
    nontrivial = has_pred or case["quant"] == "infer"
    classes = ["quant_" + case["quant"]]
    if has_pred:
        classes.append("pred")
    if case["quant"] == "the":
        classes.append("the_n0" if n_sat == 0 else ("the_n1" if n_sat == 1 else "the_n2plus"))
    # reference outcome
    if case["quant"] == "the":
        ref = ("none", None) if n_sat == 0 else (("multiple", None) if n_sat > 1 else ("value", sorted(repr(ident(r)) for r in expected)))
    elif case["quant"] == "an":
        ref = ("rows", sorted(repr(ident(r)) for r in expected))
    else:
        sat = satisfying(eff, objs)
        items = []
        for a in sat:
            env = dict(enumerate(a))
            items.append((case["head"]["cls"], repr(ident(tuple(A.eval_term(t, env) for _, t in case["head"]["args"])))))
        ref = ("instances", sorted(items))
    outcomes = {}
    ambients = ["none", "query", "rule", "query_carrying_a_query", "rule_carrying_a_query"]
    if case["quant"] != "the":
        ambients += ["none>query", "none>rule", "query>none", "rule>query"]
    for ambient in ambients:
        out, mode_ok, mode_after = _run(case, eff, objs, ambient)
        if not mode_ok:
            return fail("ambient_mode_changed", f"after evaluating {case['quant']} inside ambient '{ambient}' the mode "
                                                f"flags (rule, query, any) are {mode_after}", nontrivial=nontrivial,
                        classes=classes, features=feats + ["ambient_" + ambient])
        outcomes[ambient] = _canon(out, case.get("head"))
    for ambient in ambients[1:]:
        if outcomes[ambient] != outcomes["none"]:
            return fail("ambient_changes_outcome", f"{case['quant']} evaluated inside '{ambient}' block gives "
                                                   f"{outcomes[ambient]}, outside any block {outcomes['none']} "
                                                   f"(reference {ref})", nontrivial=nontrivial, classes=classes,
                        features=feats + ["ambient_" + ambient])
    if outcomes["none"] != ref:
        return fail("differs_from_reference", f"{case['quant']} gives {outcomes['none']} in every ambient mode, reference "
                                              f"{ref}", nontrivial=nontrivial, classes=classes, features=feats)
    return Outcome(True, nontrivial=nontrivial, classes=classes, features=feats)


def render(case):
    r = render_query(case)
    r["quant"] = case["quant"]
    r["steer"] = case.get("steer")
    if "head" in case:
        r["head"] = f"{case['head']['cls']}({', '.join(k + '=' + A.r_term(t) for k, t in case['head']['args'])})" + \
                    (" [positional]" if case["head"].get("positional") else "")
    return r
