"""C06 - `the` returns the unique solution or raises, consistently with `an`.

Generator : descriptions with every variable selected (entity or set_of; C02 grammar incl. joins, negation,
            disjunction).  The number of solutions is steered BY CONSTRUCTION: the base condition's solutions are
            computed with the reference, then with equal weights the condition is kept, conjoined with
            v_i.k == <k of a chosen solution> for every variable (exactly one solution when the base has >= 1), or
            conjoined with a contradiction (zero solutions) - so the classes 0 / 1 / >=2 each get a fair share.
Oracle    : n = |S| by the reference: 0 -> NoSolutionFound, 1 -> the value an(<same description>) yields,
            >=2 -> MultipleSolutionFound; a second evaluate() of the same object gives the same outcome;
            len(list(an(desc).evaluate())) == n.
"""
from __future__ import annotations

import copy

from hypothesis import strategies as st

from .. import ast as A
from ..runner import Outcome, fail, open_features
from ..strategies import Cfg, query_case, chance
from ..world import build_entities
from ..build import build_query, rows_of
from ..qcheck import reference_rows, case_features, render_query, ident, show_rows, satisfying, abandon

ID = "C06"
TITLE = "`the` returns the unique solution or raises, consistently with `an`"
TECHNIQUE = "property-based testing (Hypothesis) with solution-count steering, against a reference evaluator and `an`"
RULE = ("cases = fully-selected descriptions (entity / set_of) drawn by Hypothesis and steered to 0, exactly 1 or >=2 "
        "solutions; the outcome class (NoSolutionFound / value / MultipleSolutionFound) must match the reference count, "
        "the value must be the one `an` yields, and a second evaluation must repeat the outcome. Non-trivial = the "
        "description has a connective or >= 2 variables; distinct = distinct canonical JSON.")
BUDGET = {"quick": (8, 500), "thorough": (16, 4000)}
ASSUMPTIONS = ["every variable of the query is selected", "evaluation happens outside any symbolic block (C09 covers inside)"]


def _cfg(tier):
    avoid = open_features()
    return Cfg(nvars=(1, 3), pool=(2, 5), dom=(1, 3), max_product=27,
               profile="falsy" if "falsy_values" not in avoid else "clean", max_depth=2, allow_empty_cond=True,
               select="all", desc=("entity", "set_of"), force_relate=True, noise=True, dom_kinds=("list", "tuple"),
               allow_nested_not="not_under_not" not in avoid, clones=(1, 3),
               extra_templates=("filter_then_join",) * 4)


@st.composite
def _case(draw, tier):
    c = draw(query_case(_cfg(tier)))
    c["steer"] = draw(st.sampled_from(["keep", "one", "one", "zero"]))
    c["pick"] = draw(st.integers(0, 30))
    c["quant"] = "the"
    if len(c["vars"]) == 1 and chance(draw, 1, 4):
        # the description is a predicate-form term and nothing else: the(Ent(From(d), f=v)); the number of solutions is
        # steered through the field constraint (k is unique)
        from ..strategies import PROFILES
        from ..world import enc
        P_ = PROFILES[_cfg(tier).profile]
        f = draw(st.sampled_from(["a", "b", "s"]))
        c["term_only"] = [f, enc(draw(st.sampled_from(P_["ints"] if f in ("a", "b") else P_["strs"])))]
    c["share_condition_object"] = draw(st.booleans())
    if not c.get("term_only") and chance(draw, 1, 6):
        # a three-step story around ONE comparison object k: first under or_ in an evaluation that is given up part-way,
        # then as a plain condition in an evaluation that runs to the end, then under or_ again in the description of `the`
        from ..strategies import Ctx, leaf
        cfg = _cfg(tier)
        ctx = Ctx(cfg, c["ents"], len(c["vars"]))
        v = draw(st.integers(0, len(c["vars"]) - 1))
        k = ["cmp", draw(st.sampled_from(["==", ">=", "<", "!="])), ["attr", ["var", v], draw(st.sampled_from(["a", "b"]))],
             ["const", draw(st.sampled_from(ctx.P["ints"]))]]
        other, flag = leaf(draw, ctx, [v]), leaf(draw, ctx, [v])
        c["earlier_queries_sharing_comparisons"] = [{"cond": ["or", "nary", [k, other]], "take": draw(st.sampled_from([1, 1, 2]))},
                                                    {"cond": k, "take": None}]
        c["all_queries_built_before_any_is_evaluated"] = draw(st.booleans())
        c["cond"] = ["or", draw(st.sampled_from(["nary", "binl"])), [k, flag]]
        c["share_terms"] = False
        c["share_condition_object"] = False
        c["three_step_story"] = True
    c["abandon_shared_an_first"] = draw(st.sampled_from([0, 1, 1, 2]))
    return c


def strategy(tier):
    return _case(tier)


def effective_case(case, objs):
    """Apply the steering deterministically (pure function of the case)."""
    eff = copy.deepcopy(case)
    if case.get("term_only"):
        eff["cond"] = None
        eff["vars"][0].update(decl="from", kw=[])
        members = satisfying(eff, objs)
        if case["steer"] == "one" and members:
            kw = [["k", members[case["pick"] % len(members)][0].k]]
        elif case["steer"] == "zero":
            kw = [["k", 0]]
        else:
            kw = [list(case["term_only"])]
        eff["vars"][0]["kw"] = kw
        eff["sel"], eff["desc"] = [["var", 0]], "term"
        eff.pop("earlier_queries_sharing_comparisons", None)
        return eff
    base = satisfying(case, objs)
    if case["steer"] == "one" and base:
        chosen = base[case["pick"] % len(base)]
        extra = [["cmp", "==", ["attr", ["var", i], "k"], ["const", chosen[i].k]] for i in range(len(case["vars"]))]
    elif case["steer"] == "zero":
        extra = [["cmp", "==", ["attr", ["var", 0], "k"], ["const", 0]]]
    else:
        return eff
    eff["cond"] = ["and", "nary", ([case["cond"]] if case.get("cond") is not None else []) + extra]
    if len(eff["cond"][2]) == 1:
        eff["cond"] = eff["cond"][2][0]
    return eff


def _outcome(fn):
    from entity_query_language import MultipleSolutionFound, NoSolutionFound
    try:
        return ("value", fn())
    except MultipleSolutionFound:
        return ("multiple", None)
    except NoSolutionFound:
        return ("none", None)
    except Exception as e:  # anything else is a wrong exception
        return ("error", f"{type(e).__name__}: {e}")


def check(case) -> Outcome:
    objs = build_entities(case["ents"])
    eff = effective_case(case, objs)
    feats = case_features(eff) + ["desc_" + eff["desc"]]
    expected, n_sat, n_all = reference_rows(eff, objs)
    n = n_sat
    cls = "n0" if n == 0 else ("n1" if n == 1 else "n2plus")
    nontrivial = (eff.get("cond") is not None and A.has_kind(eff["cond"], "and", "or", "not")) or len(eff["vars"]) >= 2
    classes = [cls, "desc_" + eff["desc"], f"vars{len(eff['vars'])}"]
    want = {"n0": "none", "n1": "value", "n2plus": "multiple"}[cls]
    feats.append(cls)

    if case.get("term_only"):
        classes.append("description_is_a_predicate_form_term")
    if case.get("three_step_story"):
        classes.append("comparison_object_under_or_given_up_then_plain_then_under_or")
    shared = bool(case.get("share_condition_object")) and eff.get("cond") is not None and not A.has_kind(eff["cond"], "not")
    if shared:
        # the description's condition OBJECT is afterwards also used to build an `an` query (users reuse conditions)
        from .c04 import _build_sharing
        from ..build import declare_vars
        V, conts = declare_vars(eff, objs)
        spec = dict(eff, quant="the", split_top=eff.get("split_top", False))
        built = _build_sharing(V, spec, conts)
        other = _build_sharing(V, dict(spec, quant="an"), conts, built.conds)
        classes.append("condition_object_shared_with_a_later_query")
        if case.get("abandon_shared_an_first"):
            # ... and that `an` query was started and given up after a few results before `the` is asked
            try:
                abandon(other.q, case["abandon_shared_an_first"])
            except Exception as e:
                return fail("exception", f"abandoned an(...) over the same condition object: {type(e).__name__}: {e}",
                            nontrivial=nontrivial, classes=classes, features=feats)
            classes.append("after_abandoned_an_over_the_same_condition_object")
    else:
        built = build_query(eff, objs, quant="the")

    def ev():
        r = built.q.evaluate()
        return rows_of(built, [r])[0]

    o1 = _outcome(ev)
    o2 = _outcome(ev)
    o3 = _outcome(ev)
    for label, o in (("first evaluation", o1), ("re-evaluation", o2), ("third evaluation", o3)):
        if o[0] != want:
            got = o[1] if o[0] in ("error",) else (show_rows([o[1]]) if o[0] == "value" else o[0])
            return fail("wrong_outcome_" + o[0], f"{label}: {n} solution(s) {show_rows(expected)} so expected '{want}', "
                                                 f"got {o[0]}: {got}", nontrivial=nontrivial, classes=classes, features=feats)
    if shared:
        # the `an` query over the same condition objects, evaluated after `the`
        try:
            shared_rows = rows_of(other, list(other.q.evaluate()))
        except Exception as e:
            return fail("exception", f"an(...) over the same condition object: {type(e).__name__}: {e}",
                        nontrivial=nontrivial, classes=classes, features=feats)
        if {ident(r) for r in shared_rows} != {ident(r) for r in expected}:
            return fail("shared_an_rows", f"an(...) built from the same condition object yields {show_rows(shared_rows)}, "
                                          f"the reference has {show_rows(expected)}", nontrivial=nontrivial, classes=classes,
                        features=feats)
    # `an` for the same description (built freshly)
    try:
        an_built = build_query(eff, objs, quant="an")
        an_rows = rows_of(an_built, list(an_built.q.evaluate()))
    except Exception as e:
        return fail("exception", f"an(...) for the same description: {type(e).__name__}: {e}", nontrivial=nontrivial,
                    classes=classes, features=feats)
    if len(an_rows) != n:
        return fail("an_count", f"an(...) yields {len(an_rows)} rows {show_rows(an_rows)} but the reference has {n}: "
                                f"{show_rows(expected)}", nontrivial=nontrivial, classes=classes, features=feats)
    if want == "value":
        for label, o in (("first evaluation", o1), ("re-evaluation", o2), ("third evaluation", o3)):
            if ident(o[1]) != ident(an_rows[0]) or ident(o[1]) != ident(expected[0]):
                return fail("wrong_value", f"{label}: the(...) returned {show_rows([o[1]])}, an(...) yields "
                                           f"{show_rows(an_rows)}, reference {show_rows(expected)}", nontrivial=nontrivial,
                            classes=classes, features=feats)
    return Outcome(True, nontrivial=nontrivial, classes=classes, features=feats)


def render(case):
    r = render_query(case)
    r["steer"] = case["steer"]
    return r
