"""C04 - a query's answer does not depend on what was evaluated before it.

Generator : a HISTORY over a pool of 2-4 queries that SHARE their variables (1-3 variables over one dataset): evaluate
            fully; take k results then close() / drop the iterator; evaluate while a user predicate raises at its j-th
            call; re-evaluate; `the` queries in the pool; run with caching enabled or disabled.  A separate dimension
            lists an object twice in a domain ([o0, o1, o0]).
Oracle    : FRESH TWIN - for every full evaluation in the history the result must equal the result of a query built from
            the same AST over fresh variables on the same objects and evaluated exactly once (3-way with the Python
            reference when no domain repeats an object).  With a repeated object: every later full evaluation returns
            the same list as the first.  At the end the user's containers and every object's __dict__ are unchanged.
"""
from __future__ import annotations

import gc

from hypothesis import strategies as st

from .. import ast as A
from ..runner import Outcome, fail, open_features
from ..strategies import Cfg, Ctx, draw_dataset, template_cond, chance, leaf
from ..world import build_entities, FAULT, InjectedFault, snapshot
from ..build import declare_vars, build_over, rows_of
from ..qcheck import reference_rows, ident, show_rows, all_vars_selected, used_vars, case_features

ID = "C04"
TITLE = "A query's answer does not depend on what was evaluated before it"
TECHNIQUE = "model-based (history) property testing with Hypothesis: op sequences vs a fresh-twin + reference oracle"
RULE = ("cases = (dataset, 1-3 shared variables, pool of 2-4 queries, history of <=8 ops: full / partial(k, close|drop) / "
        "raising(j) / re-evaluate, caching on|off, optional repeated object in a domain); every full evaluation is compared "
        "with a fresh twin evaluated once and with the reference, and the data is compared with a snapshot at the end. "
        "Non-trivial = the history contains an abandoned or aborted evaluation followed by a full evaluation of a query "
        "sharing a variable with it whose result is a non-empty proper subset of the product; distinct = canonical JSON.")
BUDGET = {"quick": (8, 220), "thorough": (16, 1200)}
ASSUMPTIONS = ["two live result iterators over the same variables are never interleaved (take k, then close/drop)",
               "a condition object shared between two queries contains no negation (not_() rewrites its operands in place)",
               "the fault is raised by user code (a @predicate function); nothing is asserted about its propagation, only "
               "about what later evaluations return"]


def _cfg():
    avoid = open_features()
    return Cfg(nvars=(1, 3), pool=(2, 5), dom=(1, 3), profile="falsy" if "falsy_values" not in avoid else "clean",
               max_depth=2, allow_nested_not="not_under_not" not in avoid, noise=False, force_relate=True)


@st.composite
def _history(draw, tier):
    if chance(draw, 1, 7):
        # the flatten family of C16 (its generator and builder) under a history: the flattened element is selected and / or
        # compared, the query object is evaluated fully, partially and again
        from . import c16
        ops = []
        for _ in range(draw(st.integers(2, 5))):
            if chance(draw, 1, 3):
                ops.append(["partial", draw(st.integers(0, 3)), draw(st.sampled_from(["close", "drop"]))])
            else:
                ops.append(["full"])
        ops.append(["full"])
        return {"family": "flatten", "flat": draw(c16.strategy(tier)), "ops": ops, "caching": draw(st.booleans())}
    cfg = _cfg()
    # one history in five is built around a one-to-many join abandoned in the middle of a group of partners
    join_story = chance(draw, 1, 4)
    # (a join whose groups of partners can be left in the middle, or two independent conjuncts: the right one is then
    # enumerated once and answered from its cache for every further left value)
    story_template = draw(st.sampled_from(["filter_then_join", "filter_then_join", "and_independent"]))
    nvars = draw(st.integers(2, 3)) if join_story else draw(st.integers(*cfg.nvars))
    recs = draw_dataset(draw, cfg)
    n = len(recs)
    ctx = Ctx(cfg, recs, nvars)
    dup = chance(draw, 1, 5)
    doms = []
    for v in range(nvars):
        size = draw(st.integers(1, min(4 if nvars == 2 else 3, n)))
        d = list(draw(st.permutations(list(range(n))))[:size])
        if dup and v == 0:
            d.insert(draw(st.integers(0, len(d))), d[0])       # the same object listed twice
        doms.append(d)
    if not join_story and chance(draw, 1, 8):
        # one variable's domain holds no instance of its type at all (only objects of other classes), while instances of
        # the type exist elsewhere: the variable has no value, on the first evaluation and on every later one
        base_ = len(recs)
        recs = recs + [{"cls": "Other", "k": 90, "a": 1}, {"cls": "Foreign", "k": 91}]
        doms[draw(st.integers(0, nvars - 1))] = [base_, base_ + 1][:draw(st.integers(1, 2))]
    vars_ = [{"dom": v, "decl": draw(st.sampled_from(["let", "from"])), "type": "Ent"} for v in range(nvars)]
    for vd in vars_:
        if chance(draw, 1, 6) and all(recs[i].get("cls") not in ("Other", "Foreign") for i in doms[vd["dom"]]):
            # predicate-form declaration with a field constraint that some member of the domain satisfies
            f = draw(st.sampled_from(["a", "b", "s"]))
            vd.update(decl="from", kw=[[f, recs[draw(st.sampled_from(doms[vd["dom"]]))][f]]])
    share_cmp = chance(draw, 1, 4)
    pool = []
    for qi in range(draw(st.integers(2, 4))):
        cond = template_cond(draw, ctx, story_template if join_story and qi == 0 else None)
        if chance(draw, 1, 2) and not (join_story and qi == 0):
            flaky = ["fpred", "p_flaky", [["var", draw(st.integers(0, nvars - 1))], ["const", draw(st.sampled_from(ctx.P["ints"]))]]]
            conn = draw(st.sampled_from(["and", "and", "or"]))
            parts = [cond, flaky] if draw(st.booleans()) else [flaky, cond]
            cond = [conn, draw(st.sampled_from(["nary", "binl"])), parts]
        if chance(draw, 1, 4):
            # a nested sub-query (its state lives beneath a quantifier of its own)
            v = draw(st.integers(0, nvars - 1))
            if cond[0] in ("and", "or") and draw(st.booleans()):
                cond = [cond[0], cond[1], [["sub", "entity", [v], cond[2][0]]] + cond[2][1:]]
            else:
                cond = ["sub", "entity", [v], cond]
        if share_cmp and pool and chance(draw, 2, 3):
            # a comparison OBJECT of an earlier query is used again, in another connective (c = x.a >= 2;
            # q1 = ...or_(c, d)...; q2 = ...and_(c, e)...): its result cache is filled by one and read by the other
            earlier = [n for s_ in pool for n in A.walk(s_["cond"]) if n[0] in ("cmp", "in")
                       or (n[0] == "or" and not A.has_kind(n, "not", "sub", "fpred"))]
            if earlier:
                reused = draw(st.sampled_from(earlier))
                parts = [reused, leaf(draw, ctx, [draw(st.integers(0, nvars - 1))])]
                if draw(st.booleans()):
                    parts.reverse()
                cond = [draw(st.sampled_from(["and", "or"])), draw(st.sampled_from(["nary", "binl"])), parts]
        k = draw(st.integers(1, nvars))
        order = list(draw(st.permutations(list(range(nvars))))[:k])
        sel = [["var", v] for v in order]
        desc = "entity" if (len(sel) == 1 and draw(st.booleans())) else "set_of"
        quant = "the" if chance(draw, 1, 6) else "an"
        spec = {"cond": cond, "sel": sel, "desc": desc, "quant": quant, "split_top": draw(st.booleans())}
        # two queries may be built from the SAME condition object (users do reuse a condition they built once); only
        # negation-free conditions, because not_() rewrites its operand in place
        donors = [j for j, s_ in enumerate(pool) if not A.has_kind(s_["cond"], "not") and "share_with" not in s_]
        if donors and chance(draw, 1, 4):
            j = draw(st.sampled_from(donors))
            spec["cond"] = pool[j]["cond"]
            spec["split_top"] = pool[j]["split_top"]
            # ... and select the same variables: the engine memoises, per expression node, which variables its
            # enclosing query needs, so one condition object inside two queries with DIFFERENT selections is not a
            # supported input (nothing documents it); the same selection under another quantifier is
            if draw(st.booleans()):
                spec["sel"] = pool[j]["sel"]
                spec["desc"] = pool[j]["desc"]
                spec["quant"] = "the" if pool[j]["quant"] == "an" else "an"
            else:
                spec["other_selection"] = True
            spec["share_with"] = j
        pool.append(spec)
    ops = []
    if join_story:
        ops += [["partial", 0, draw(st.integers(1, 3)), draw(st.sampled_from(["close", "drop"]))], ["full", 0]]
    for _ in range(draw(st.integers(2, 8))):
        qi = draw(st.integers(0, len(pool) - 1))
        kind = draw(st.sampled_from(["full", "full", "partial", "partial", "raising"]))
        if kind == "partial":
            # (given up by close(), by dropping the last reference, or simply left open: never advanced again but still
            # referenced until the end of the history)
            ops.append(["partial", qi, draw(st.integers(0, 3)), draw(st.sampled_from(["close", "drop", "keep"]))])
            if draw(st.booleans()):
                ops.append(["full", qi])       # what an abandoned evaluation left behind is read back at once
        elif kind == "raising":
            ops.append(["raising", qi, draw(st.integers(1, 6))])
        else:
            ops.append(["full", qi])
    ops.append(["full", draw(st.integers(0, len(pool) - 1))])
    # (negation rewrites its operands in place, so comparison objects are only shared between negation-free queries)
    share_cmp = share_cmp and not any(A.has_kind(s_["cond"], "not") for s_ in pool)
    return {"share_comparisons": share_cmp, "ents": recs, "doms": doms, "vars": vars_, "pool": pool, "ops": ops, "caching": True if join_story else draw(st.booleans()),
            "dom_kind": "list"}


def strategy(tier):
    return _history(tier)


def _build_sharing(V, spec, conts, shared_conds=None):
    """Like build.build_over, but optionally built from condition OBJECTS that another query already uses."""
    from entity_query_language import an, the, entity, set_of, symbolic_mode
    from ..build import build_term, build_cond, Built
    cond = spec["cond"]
    with symbolic_mode():
        sel = [build_term(t, V) for t in spec["sel"]]
        if shared_conds is not None:
            conds = shared_conds
        elif spec.get("split_top") and cond[0] == "and":
            conds = [build_cond(x, V) for x in cond[2]]
        else:
            conds = [build_cond(cond, V)]
        d = entity(sel[0], *conds) if spec["desc"] == "entity" else set_of(sel, *conds)
        q = an(d) if spec["quant"] == "an" else the(d)
    b = Built(q, V, sel, spec["desc"], conts)
    b.conds = conds
    return b


def _outcome_the(built):
    from entity_query_language import MultipleSolutionFound, NoSolutionFound
    try:
        r = built.q.evaluate()
        return ("value", tuple(sorted(map(repr, map(ident, rows_of(built, [r]))))))
    except MultipleSolutionFound:
        return ("multiple", None)
    except NoSolutionFound:
        return ("none", None)
    except InjectedFault:
        raise
    except Exception as e:      # any other exception escaping evaluate() is an outcome of its own (and a failure)
        return ("error", f"{type(e).__name__}: {e}")


def _spec_case(case, spec):
    return {"ents": case["ents"], "doms": case["doms"], "vars": case["vars"], "cond": spec["cond"], "sel": spec["sel"],
            "desc": spec["desc"], "quant": spec["quant"], "split_top": spec["split_top"], "dom_kind": "list"}


_END = object()


def _check_flatten(case) -> Outcome:
    from entity_query_language.cache_data import enable_caching, disable_caching
    from . import c16
    flat = case["flat"]
    objs = build_entities(flat["ents"])
    before = snapshot(objs)
    classes = ["family_flatten", "caching_on" if case["caching"] else "caching_off", "flatten_select_" + flat["select"],
               "flatten_cond_" + flat["cond_kind"]]
    (enable_caching if case["caching"] else disable_caching)()
    nontrivial = False
    try:
        try:
            q2, extract2 = c16.build(flat, objs)
            want = extract2(list(q2.evaluate()))            # the fresh twin, evaluated exactly once
            q, extract = c16.build(flat, objs)
        except Exception as e:
            return fail("exception", f"flatten family, fresh twin: {type(e).__name__}: {e}", classes=classes)
        wset = {ident(r) for r in want}
        disturbed = False
        fulls = 0
        for step, op in enumerate(case["ops"]):
            label = f"flatten family ({c16.render(flat)['query']}), step {step} {op}"
            try:
                if op[0] == "partial":
                    it = q.evaluate()
                    for _ in range(op[1]):
                        if next(it, _END) is _END:
                            break
                    if op[2] == "close":
                        it.close()
                    else:
                        del it
                        gc.collect()
                    disturbed = True
                    if "partial" not in classes:
                        classes.append("partial")
                    continue
                got = extract(list(q.evaluate()))
            except Exception as e:
                return fail("exception", f"{label}: {type(e).__name__}: {e}; earlier ops {case['ops'][:step]}",
                            classes=classes, nontrivial=nontrivial)
            if {ident(r) for r in got} != wset:
                return fail("history_changes_result", f"{label}: got {show_rows(got)} but a fresh twin evaluated once gives "
                                                      f"{show_rows(want)}; earlier ops {case['ops'][:step]}",
                            classes=classes, nontrivial=nontrivial)
            fulls += 1
            if (disturbed or fulls >= 2) and want:
                nontrivial = True
        if snapshot(objs) != before:
            return fail("object_modified", "a dataset object's attributes changed during the history", classes=classes)
    finally:
        enable_caching()
    return Outcome(True, nontrivial=nontrivial, classes=classes, features=list(classes))


def check(case) -> Outcome:
    if case.get("family") == "flatten":
        return _check_flatten(case)
    from entity_query_language.cache_data import enable_caching, disable_caching
    objs = build_entities(case["ents"])
    before = snapshot(objs)
    has_dup = any(len(set(d)) < len(d) for d in case["doms"])
    (enable_caching if case["caching"] else disable_caching)()
    FAULT.update(armed=False, calls=0, at=0)
    classes = ["caching_on" if case["caching"] else "caching_off", f"vars{len(case['vars'])}"]
    if any(s_.get("share_with") is not None for s_ in case["pool"]):
        classes.append("shared_condition_object")
    if case.get("share_comparisons"):
        classes.append("comparison_objects_shared_between_queries")
    if any(A.has_kind(s_["cond"], "sub") for s_ in case["pool"]):
        classes.append("nested_subquery")
    if has_dup:
        classes.append("repeated_object_in_domain")
    if any(v.get("kw") for v in case["vars"]):
        classes.append("predicate_form_variable")
    feats = list(classes)
    for spec in case["pool"]:
        # shapes of open findings owned by other properties (excluded there and here, counted in evidence)
        feats += [f for f in case_features(_spec_case(case, spec))
                  if f in ("subquery_selects_predicate_form_var_under_disjunction", "empty_domain_under_disjunction")
                  and f not in feats]
    try:
        V, conts = declare_vars(case, objs)
        conts_before = [list(map(id, c)) for c in conts]
        builts = []
        if case.get("share_comparisons"):
            from ..build import Vars
            V = Vars(V)
            V.cmemo = {}
            V.share_connectives = True
        for spec in case["pool"]:
            if case.get("share_comparisons"):
                V.cused = set()
            shared = builts[spec["share_with"]].conds if spec.get("share_with") is not None else None
            builts.append(_build_sharing(V, spec, conts, shared))
        twins = {}
        kept_open = []
        first_lists = {}
        disturbed_vars = set()      # variables of queries whose evaluation was abandoned or aborted so far
        nontrivial = False

        def twin_rows(qi):
            if qi not in twins:
                spec = case["pool"][qi]
                V2, c2 = declare_vars(case, objs)
                b2 = build_over(V2, spec, conts=c2)
                if spec["quant"] == "the":
                    twins[qi] = _outcome_the(b2)
                else:
                    twins[qi] = rows_of(b2, list(b2.q.evaluate()))
            return twins[qi]

        for step, op in enumerate(case["ops"]):
            kind, qi = op[0], op[1]
            spec, b = case["pool"][qi], builts[qi]
            qvars = set(used_vars(_spec_case(case, spec)))
            label = f"step {step} {op} on q{qi}: {A.r_cond(spec['cond'])} select {[A.r_term(t) for t in spec['sel']]}"
            if kind == "full":
                if spec["quant"] == "the":
                    got = _outcome_the(b)
                    want = twin_rows(qi)
                    if got != want:
                        return fail("history_changes_the", f"{label}: the(...) gave {got}, a fresh twin gives {want}; "
                                                           f"history {case['ops'][:step]}", classes=classes,
                                    features=feats + ["the"], nontrivial=nontrivial)
                    continue
                try:
                    got = rows_of(b, list(b.q.evaluate()))
                except Exception as e:
                    return fail("exception", f"{label}: {type(e).__name__}: {e}; earlier ops {case['ops'][:step]}",
                                classes=classes, features=feats, nontrivial=nontrivial)
                want = twin_rows(qi)
                sc = _spec_case(case, spec)
                if not has_dup:
                    ref, n_sat, n_all = reference_rows(sc, objs)
                    if {ident(r) for r in want} != {ident(r) for r in ref}:
                        return fail("twin_differs_from_reference", f"{label}: fresh twin {show_rows(want)} vs reference "
                                                                   f"{show_rows(ref)}", classes=classes, features=feats)
                    if disturbed_vars & qvars and 0 < n_sat < n_all:
                        nontrivial = True
                if {ident(r) for r in got} != {ident(r) for r in want}:
                    return fail("history_changes_result", f"{label}: got {show_rows(got)} but a fresh twin evaluated once "
                                                          f"gives {show_rows(want)}; earlier ops {case['ops'][:step]}",
                                classes=classes, features=feats, nontrivial=nontrivial)
                if all_vars_selected(sc) and not has_dup and len(got) != len(want):
                    return fail("history_changes_row_count", f"{label}: {len(got)} rows {show_rows(got)} vs twin "
                                                             f"{show_rows(want)}", classes=classes, features=feats,
                                nontrivial=nontrivial)
                if has_dup:
                    # the exact list when every variable of the query is selected; under projection only the row set
                    # (how often a projected row repeats is not asserted by any property, cf. C02)
                    # (row order of a multi-variable result is not promised either: multiset, not list)
                    key = sorted(map(repr, map(ident, got))) if all_vars_selected(sc) else \
                        sorted(set(map(repr, map(ident, got))))
                    if qi in first_lists and first_lists[qi] != key:
                        return fail("repeated_object_first_vs_later", f"{label}: first full evaluation returned "
                                                                      f"{first_lists[qi]} rows, this one {show_rows(got)}",
                                    classes=classes, features=feats + ["repeated_object"], nontrivial=True)
                    first_lists.setdefault(qi, key)
                    if disturbed_vars & qvars:
                        nontrivial = True
            elif kind == "partial":
                if spec["quant"] == "the":
                    continue
                it = b.q.evaluate()
                taken = 0
                for _ in range(op[2]):
                    try:
                        next(it)
                        taken += 1
                    except StopIteration:
                        break
                if op[3] == "close":
                    it.close()
                elif op[3] == "keep" and taken:
                    kept_open.append(it)
                    if "given_up_iterator_left_open" not in classes:
                        classes.append("given_up_iterator_left_open")
                else:
                    del it
                    gc.collect()
                disturbed_vars |= qvars
                if "partial" not in classes:
                    classes.append("partial")
            elif kind == "raising":
                FAULT.update(armed=True, calls=0, at=op[2])
                try:
                    if spec["quant"] == "the":
                        _outcome_the(b)
                    else:
                        list(b.q.evaluate())
                except InjectedFault:
                    disturbed_vars |= qvars
                    if "aborted_by_exception" not in classes:
                        classes.append("aborted_by_exception")
                finally:
                    FAULT.update(armed=False, calls=0, at=0)
        if [list(map(id, c)) for c in conts] != conts_before:
            return fail("domain_modified", "a user domain container changed during the history", classes=classes,
                        features=feats)
        if snapshot(objs) != before:
            return fail("object_modified", "a dataset object's attributes changed during the history", classes=classes,
                        features=feats)
    finally:
        enable_caching()
        FAULT.update(armed=False, calls=0, at=0)
    return Outcome(True, nontrivial=nontrivial, classes=classes, features=feats)


def render(case):
    if case.get("family") == "flatten":
        from . import c16
        return {"family": "flatten", **c16.render(case["flat"]), "caching": case["caching"], "history": case["ops"]}
    return {"entities": [f"#{i}:{r['cls']}(a={r['a']},b={r['b']},s={r['s']!r})" for i, r in enumerate(case["ents"])],
            "doms": case["doms"], "caching": case["caching"],
            "equal_comparisons_are_one_object_in_all_queries": bool(case.get("share_comparisons")),
            "pool": [f"q{i}: {s['quant']}({s['desc']}{[A.r_term(t) for t in s['sel']]}, {A.r_cond(s['cond'])})"
                     for i, s in enumerate(case["pool"])],
            "history": case["ops"]}
