"""C15 - a sub-query used inside a query means the same as its conditions inlined.

Generator : pairs of conditions c1, c2 (1-2 variables, C01/C02 grammar) wrapped as an(entity(v, ci)) / an(set_of(vs, ci)),
            combined with &, |, and_, or_ or passed as several conditions, optionally mixed with a plain condition
            (position CONDITION); as the operand of a comparison l.ref == an(entity(x, c)) / the(entity(x, c)) steered to
            exactly one solution (position OPERAND); as a predicate-form argument L(From(d), ref=an(entity(x, c)))
            (position ARGUMENT); and as selected variables a(v0, c0), a(v1, c1) inside set_of (position SELECTED).
Oracle    : 3-way - the composed query vs the flattened query built from the same AST with the sub-queries' conditions
            inlined vs the Python reference (operand/argument position: exists x in rows(sub) with l.ref is x).  Sets.
"""
from __future__ import annotations

import copy
import itertools

from hypothesis import strategies as st

from .. import ast as A
from ..runner import Outcome, fail, open_features
from ..strategies import Cfg, Ctx, draw_dataset, leaf, cond_tree, chance
from ..world import build_entities, CLASSES
from ..build import declare_vars, build_over, build_cond, build_term, rows_of, Built
from ..qcheck import reference_rows, compare_sets, render_query, var_domains, ident, show_rows, abandon

from entity_query_language import an, a, the, entity, set_of, symbolic_mode, From, let

ID = "C15"
TITLE = "A sub-query used inside a query means the same as its conditions inlined"
TECHNIQUE = "differential property-based testing (Hypothesis): composed query vs inlined query vs Python reference"
RULE = ("cases = (dataset, sub-query conditions c1/c2, wrapper entity|set_of, connective, position condition|operand|"
        "argument|selected) drawn by Hypothesis; the composed query, the query with the sub-queries inlined and the "
        "reference must return the same row set. Non-trivial = both sub-conditions are non-constant on the data and the "
        "composed result differs from each component's result (condition position) / the sub-query restricts the operand "
        "(other positions); distinct = canonical JSON.")
BUDGET = {"quick": (8, 650), "thorough": (16, 3500)}
ASSUMPTIONS = ["a `the` sub-query used inside another query has exactly one solution",
               "only == against a sub-query operand is asserted (the existential reading of other operators is not stated)"]


def _cfg():
    avoid = open_features()
    return Cfg(nvars=(1, 2), pool=(3, 6), dom=(1, 3), profile="falsy" if "falsy_values" not in avoid else "clean",
               max_depth=1, noise=False, force_relate=True, allow_nested_not="not_under_not" not in avoid)


def _small_cond(draw, ctx, vars_):
    c = leaf(draw, ctx, [draw(st.sampled_from(vars_))] if (len(vars_) == 1 or chance(draw, 1, 2)) else vars_[:2])
    if chance(draw, 1, 4):
        c = [draw(st.sampled_from(["and", "or"])), "nary", [c, leaf(draw, ctx, [draw(st.sampled_from(vars_))])]]
    elif chance(draw, 1, 6):
        c = ["not", "not_", c]
    return c


@st.composite
def _case(draw, tier):
    cfg = _cfg()
    position = draw(st.sampled_from(["condition", "condition", "operand", "operand_attr", "argument", "selected"]))
    recs = draw_dataset(draw, cfg)
    n = len(recs)
    nv = draw(st.sampled_from([1, 2])) if position == "condition" else 2
    ctx = Ctx(cfg, recs, nv)
    doms = [list(draw(st.permutations(list(range(n))))[:draw(st.sampled_from([1, 2, 3, 3, 4]))]) for _ in range(nv)]
    vars_ = [{"dom": v, "decl": draw(st.sampled_from(["let", "from"])), "type": "Ent"} for v in range(nv)]
    case = {"ents": recs, "doms": doms, "vars": vars_, "dom_kind": "list", "position": position, "quant": "an",
            "split_top": False, "abandon_first": draw(st.sampled_from([0, 0, 1, 2]))}
    allv = list(range(nv))
    if position == "condition":
        def sub():
            if nv == 2 and chance(draw, 1, 2):
                return ["sub", "set_of", allv, _small_cond(draw, ctx, allv)]
            v = draw(st.sampled_from(allv))
            if nv == 2 and chance(draw, 1, 3):
                # a disjunction inside the sub-query that joins the variable the sub-query does NOT select
                c = ["or", draw(st.sampled_from(["nary", "binl"])), [leaf(draw, ctx, allv), leaf(draw, ctx, draw(st.sampled_from([allv, [v], [1 - v]])))]]
                if draw(st.booleans()):
                    c[2].reverse()
                return ["sub", "entity", [v], c]
            return ["sub", "entity", [v], _small_cond(draw, ctx, allv if chance(draw, 1, 3) else [v])]
        def maybe_nested():
            q = sub()
            if chance(draw, 1, 4):
                # two levels: a sub-query whose only condition is another sub-query
                v = draw(st.sampled_from(q[2]))
                q = ["sub", "entity", [v], q] if (len(q[2]) == 1 or chance(draw, 1, 2)) else ["sub", "set_of", q[2], q]
            return q
        parts = [maybe_nested(), maybe_nested()] if chance(draw, 3, 4) else [maybe_nested()]
        if chance(draw, 1, 3) or len(parts) == 1:
            parts.insert(draw(st.integers(0, 2)), _small_cond(draw, ctx, allv))
        conn = draw(st.sampled_from(["and", "or"]))
        form = draw(st.sampled_from(["nary", "binl", "binr"]))
        case["cond"] = [conn, form, parts]
        case["split_top"] = conn == "and" and draw(st.booleans())
        left_or_story = nv == 2 and chance(draw, 1, 3)
        if left_or_story:
            # a sub-query with a disjunction of its own as the LEFT operand of an outer disjunction whose right operand is
            # about the variable the sub-query does not select (and the query does not select it either)
            v = draw(st.sampled_from(allv))
            first = leaf(draw, ctx, allv)
            if chance(draw, 1, 2):
                first = ["and", "nary", [first, leaf(draw, ctx, draw(st.sampled_from([[v], allv])))]]
            inner = ["or", draw(st.sampled_from(["nary", "binl"])), [first, leaf(draw, ctx, draw(st.sampled_from([[v], allv])))]]
            case["cond"] = ["or", form, [["sub", "entity", [v], inner], leaf(draw, ctx, draw(st.sampled_from([[1 - v], allv])))]]
            case["split_top"] = False
            parts = case["cond"][2]
        if chance(draw, 1, 3) and not A.has_kind(case["cond"], "not"):
            if chance(draw, 1, 3):
                # the plain story: two sub-queries over the same variable(s), q1 | q2 or q1 & q2, nothing else
                vs_ = [draw(st.sampled_from(allv))] if chance(draw, 2, 3) else allv
                mk = lambda: ["sub", "entity", [vs_[0]], leaf(draw, ctx, vs_ if len(vs_) == 1 else draw(st.sampled_from([vs_, vs_, [vs_[0]]])))]
                parts = [mk(), mk()]
                case["cond"] = [draw(st.sampled_from(["or", "or", "and"])), draw(st.sampled_from(["nary", "binl"])), parts]
                case["split_top"] = False
            n_sub = sum(1 for x in parts if x[0] == "sub")
            case["subqueries_used_before"] = {"alone": [draw(st.sampled_from(["full", "full", "full", 1, None])) for _ in range(n_sub)],
                                              "earlier_conn": draw(st.sampled_from([None, None, "and", "or"]))}
        k = draw(st.integers(1, nv))
        case["sel"] = [["var", v] for v in list(draw(st.permutations(allv)))[:k]]
        if left_or_story:
            case["sel"] = [["var", case["cond"][2][0][2][0]]]
            k = 1
        case["desc"] = "entity" if (k == 1 and draw(st.booleans())) else "set_of"
    elif position in ("operand", "argument"):
        # v0 = outer variable l, v1 = sub-query variable x; l.ref == an(entity(x, c))
        quant = draw(st.sampled_from(["an", "an", "the"])) if position == "operand" else "an"
        if quant == "the":
            c = ["cmp", "==", ["attr", ["var", 1], "k"], ["const", recs[doms[1][draw(st.integers(0, len(doms[1]) - 1))]]["k"]]]
        else:
            c = _small_cond(draw, ctx, [1])
        case["sub_cond"] = c
        case["sub_quant"] = quant
        case["outer_term"] = draw(st.sampled_from([["attr", ["var", 0], "ref"], ["var", 0], ["attr", ["attr", ["var", 0], "ref"], "ref"]])) \
            if position == "operand" else ["attr", ["var", 0], "ref"]
        case["extra"] = _small_cond(draw, ctx, [0]) if chance(draw, 1, 2) else None
        # the comparison with the sub-query combined with the extra condition by or_ (operand position only): the operand is
        # still restricted to the sub-query's solutions, the other disjunct speaks for itself
        case["extra_conn"] = "or" if (position == "operand" and case["extra"] is not None and chance(draw, 1, 2)) else "and"
        case["extra_first"] = draw(st.booleans())
        case["sub_side"] = draw(st.sampled_from(["right", "left"]))
        case["sel"] = [["var", 0]]
        case["desc"] = "entity"
    elif position == "operand_attr":
        # an attribute of a sub-query as the operand: pre(l, x) & (an(entity(x, c(l, x) | c(x))).attr <op> const | l.attr);
        # x is restricted to the sub-query's solutions under the bindings of the enclosing query
        case["pre"] = leaf(draw, ctx, draw(st.sampled_from([[0, 1], [0, 1], [0], [1]]))) if chance(draw, 3, 4) else None
        case["sub_cond"] = leaf(draw, ctx, draw(st.sampled_from([[0, 1], [0, 1], [1]])))
        case["sub_attr"] = draw(st.sampled_from(["a", "b"]))
        # ... or the sub-query itself as the argument of a predicate: IsBig(sub), p_a_ge(sub, n), HasType(sub, T)
        case["pred_form"] = draw(st.sampled_from([None, None, ["cpred", "IsBig"], ["fpred", "p_a_ge", draw(st.sampled_from([0, 1, 2]))],
                                                  ["hastype", draw(st.sampled_from(["EntSub", "EntPlain", "EntV"]))]]))
        case["op"] = draw(st.sampled_from(["==", "==", "!=", "<=", ">"]))
        case["other"] = draw(st.sampled_from([["const", draw(st.sampled_from(ctx.P["ints"]))], ["const", draw(st.sampled_from(ctx.P["ints"]))],
                                              ["attr", ["var", 0], draw(st.sampled_from(["a", "b"]))]]))
        case["sub_side"] = draw(st.sampled_from(["left", "left", "right"]))
        # the attribute is selected INSIDE the sub-query: an(entity(x.a, c)) <op> other   instead of   an(entity(x, c)).a <op> other
        case["attr_selected_inside"] = case["pred_form"] is None and chance(draw, 1, 3)
        if case["attr_selected_inside"] and chance(draw, 1, 2):
            # ... and the sub-query's own condition does not mention the variable whose attribute it selects
            case["sub_cond"] = leaf(draw, ctx, [0])
        case["pre_first"] = chance(draw, 3, 4)
        k = draw(st.sampled_from([1, 2, 2]))
        case["sel"] = [["var", v] for v in list(draw(st.permutations([0, 1])))[:k]]
        # combined by or_ only when the sub-query's variable is purely existential (neither selected nor mentioned by
        # the other disjunct): what it ranges over on rows that only satisfy the other disjunct is not stated
        case["conn"] = "or" if (case["pre"] is not None and 1 not in A.cond_vars(case["pre"])
                                and case["sel"] == [["var", 0]] and chance(draw, 1, 2)) else "and"
        case["desc"] = "set_of"
    else:
        case["c0"] = _small_cond(draw, ctx, [0])
        case["c1"] = _small_cond(draw, ctx, [1] if chance(draw, 1, 2) else [0, 1])
        case["sel"] = [["var", 0], ["var", 1]]
        case["desc"] = "set_of"
    return case


def strategy(tier):
    return _case(tier)


class _Reevaluation(Exception):
    pass


def _inline(c):
    k = c[0]
    if k == "sub":
        return _inline(c[3])
    if k in ("and", "or"):
        return [k, c[1], [_inline(x) for x in c[2]]]
    if k == "not":
        return ["not", c[1], _inline(c[2])]
    return c


def check(case) -> Outcome:
    objs = build_entities(case["ents"])
    pos = case["position"]
    doms = var_domains(case, objs)
    classes = ["position_" + pos] + (["after_abandoned_evaluation"] if case.get("abandon_first") else [])
    feats = list(classes)
    nontrivial = False

    if pos == "condition":
        flat = dict(case, cond=_inline(case["cond"]))
        expected, n_sat, n_all = reference_rows(flat, objs)
        subs = [x for x in case["cond"][2] if x[0] == "sub"]
        comp_sets = []
        for sq in subs:
            r, ns, na = reference_rows(dict(case, cond=_inline(sq)), objs)
            comp_sets.append((ns, na, {ident(x) for x in r}))
        nontrivial = all(0 < ns < na for ns, na, _ in comp_sets) and all({ident(x) for x in expected} != s for _, _, s in comp_sets)
        classes += ["conn_" + case["cond"][0], "form_" + case["cond"][1]] + sorted({"wrap_" + s[1] for s in subs})
        if case.get("subqueries_used_before"):
            classes.append("subquery_objects_evaluated_before_the_enclosing_query_was_built")

        def run(c):
            V, conts = declare_vars(c, objs)
            story = case.get("subqueries_used_before")
            if story and c is case:
                # the sub-query OBJECTS exist before the enclosing query: each was built as a query of its own and some were
                # evaluated on their own (to the end, or given up after a result), or inside an earlier enclosing query
                from ..build import Vars
                V = Vars(V)
                V.smemo, V.sused = {}, set()
                with symbolic_mode():
                    own = [build_cond(sq, V) for sq in subs]
                for q_, how in zip(own, story["alone"]):
                    if how == "full":
                        list(q_.evaluate())
                    elif how:
                        abandon(q_, how)
                if story.get("earlier_conn") and len(subs) >= 2:
                    V.sused = set()
                    pre = build_over(V, dict(c, cond=[story["earlier_conn"], "nary", subs], split_top=False), conts=conts)
                    list(pre.q.evaluate())
                V.sused = set()
            b = build_over(V, c, conts=conts)
            abandon(b.q, case.get("abandon_first", 0))
            first = rows_of(b, list(b.q.evaluate()))
            # the same query object evaluated again (and a third time) must give the same row set
            for n in (2, 3):
                again = rows_of(b, list(b.q.evaluate()))
                if {ident(r) for r in again} != {ident(r) for r in first}:
                    raise _Reevaluation(f"evaluation {n} gave {show_rows(again)}, the first one {show_rows(first)}")
            return first
        variants = {"composed": case, "inlined": flat}
    else:
        variants = {"composed": "composed", "inlined": "inlined"}
        if pos in ("operand", "argument"):
            sub_rows = [w for w in doms[1] if A.eval_cond(case["sub_cond"], {1: w})]
            extra = case.get("extra")
            expected = []
            for l in doms[0]:
                if pos == "argument" and not isinstance(l, CLASSES["Ent"]):
                    continue
                lv = A.eval_term(case["outer_term"], {0: l})
                m_ = any(lv == w for w in sub_rows)
                if (m_ or A.eval_cond(extra, {0: l})) if (extra is not None and case.get("extra_conn") == "or") else \
                        (m_ and (extra is None or A.eval_cond(extra, {0: l}))):
                    expected.append((l,))
            nontrivial = 0 < len(sub_rows) < len(doms[1]) and 0 < len(expected) < len(doms[0])
            classes += ["sub_" + case["sub_quant"], "sub_on_" + case["sub_side"]]
            if extra is not None and case.get("extra_conn") == "or":
                classes.append("operand_comparison_under_or_" + ("second" if case.get("extra_first") else "first"))
                feats.append("operand_comparison_under_or")
            if case["sub_quant"] == "the" and len(sub_rows) != 1:
                return Outcome(True, classes=classes + ["skipped_the_not_unique"])

            def run(which):
                c0 = _mk(objs, case["doms"][0])
                c1 = _mk(objs, case["doms"][1])
                with symbolic_mode():
                    x = let(CLASSES["Ent"], domain=c1)
                    if which == "composed":
                        qf = an if case["sub_quant"] == "an" else the
                        sub = qf(entity(x, build_cond(case["sub_cond"], [None, x])))
                        if pos == "argument":
                            l = CLASSES["Ent"](From(c0), ref=sub)
                            conds = [build_cond(extra, [l._var_ if hasattr(l, "_var_") else l])] if extra is not None else []
                            q = an(entity(l, *conds))
                        else:
                            l = let(CLASSES["Ent"], domain=c0)
                            lt = build_term(case["outer_term"], [l])
                            cmp_ = (lt == sub) if case["sub_side"] == "right" else (sub == lt)
                            conds = [cmp_] + ([build_cond(extra, [l])] if extra is not None else [])
                            if extra is not None and case.get("extra_conn") == "or":
                                from entity_query_language import or_
                                conds = [or_(*(reversed(conds) if case.get("extra_first") else conds))]
                            q = an(entity(l, *conds))
                    else:
                        l = let(CLASSES["Ent"], domain=c0)
                        lt = build_term(case["outer_term"], [l])
                        cmp_ = (lt == x) if case["sub_side"] == "right" else (x == lt)
                        conds = [cmp_, build_cond(case["sub_cond"], [None, x])] + ([build_cond(extra, [l])] if extra is not None else [])
                        if extra is not None and case.get("extra_conn") == "or":
                            from entity_query_language import or_, and_
                            parts_ = [and_(conds[0], conds[1]), conds[2]]
                            conds = [or_(*(reversed(parts_) if case.get("extra_first") else parts_))]
                        q = an(entity(l, *conds))
                abandon(q, case.get("abandon_first", 0))
                return _eval3(q, lambda r: (r,))
        elif pos == "operand_attr":
            sub_side_l = case["sub_side"] == "left"
            cmp_ast = ["cmp", case["op"], ["attr", ["var", 1], case["sub_attr"]], case["other"]] if sub_side_l else \
                ["cmp", case["op"], case["other"], ["attr", ["var", 1], case["sub_attr"]]]
            pf = case.get("pred_form")
            if pf is not None:
                cmp_ast = ["cpred", pf[1], [["var", 1]]] if pf[0] == "cpred" else \
                    (["fpred", pf[1], [["var", 1], ["const", pf[2]]]] if pf[0] == "fpred" else ["hastype", ["var", 1], pf[1]])
            sel = [t[1] for t in case["sel"]]
            expected, seen, n_sub = [], set(), 0
            for x0, x1 in itertools.product(doms[0], doms[1]):
                env = {0: x0, 1: x1}
                n_sub += bool(A.eval_cond(case["sub_cond"], env))
                mine_holds = A.eval_cond(case["sub_cond"], env) and A.eval_cond(cmp_ast, env)
                pre_holds = case["pre"] is None or A.eval_cond(case["pre"], env)
                if (pre_holds or mine_holds) if case.get("conn") == "or" else (pre_holds and mine_holds):
                    row = tuple(env[v] for v in sel)
                    if ident(row) not in seen:
                        seen.add(ident(row))
                        expected.append(row)
            n_all = len(doms[0]) * len(doms[1])
            nontrivial = 0 < n_sub < n_all and 0 < len(expected)
            classes += ["sub_correlated" if 0 in A.cond_vars(case["sub_cond"]) else "sub_uncorrelated",
                        "other_const" if case["other"][0] == "const" else "other_outer_attr", f"selected{len(sel)}",
                        "combined_by_" + case.get("conn", "and"),
                        "subquery_is_" + ("attribute_operand" if pf is None else "argument_of_" + pf[0])]
            if case.get("conn") == "or":
                feats.append("operand_attr_combined_by_or")      # KF-44
            if case.get("attr_selected_inside"):
                feats.append("attribute_selected_inside_the_subquery")
                classes.append("attribute_selected_inside_the_subquery")

            def run(which):
                V, conts = declare_vars(case, objs)
                with symbolic_mode():
                    l, x = V
                    pre = [build_cond(case["pre"], V)] if case["pre"] is not None else []
                    if which == "composed":
                        sub = an(entity(x, build_cond(case["sub_cond"], V)))
                        if pf is not None:
                            # the predicate's argument is the sub-query: build the predicate over a stand-in list of
                            # variables in which the sub-query takes the place of x
                            mine = [build_cond(cmp_ast, [l, sub])]
                        else:
                            st_ = getattr(sub, case["sub_attr"])
                            if case.get("attr_selected_inside"):
                                st_ = an(entity(getattr(x, case["sub_attr"]), build_cond(case["sub_cond"], V)))
                            ot = build_term(case["other"], V)
                            import operator as _op
                            f = {"==": _op.eq, "!=": _op.ne, "<=": _op.le, ">": _op.gt}[case["op"]]
                            mine = [f(st_, ot) if sub_side_l else f(ot, st_)]
                    else:
                        mine = [build_cond(case["sub_cond"], V), build_cond(cmp_ast, V)]
                    if case.get("conn") == "or":
                        from entity_query_language import and_, or_
                        m = mine[0] if len(mine) == 1 else and_(*mine)
                        conds = [or_(pre[0], m) if case["pre_first"] else or_(m, pre[0])]
                    else:
                        conds = pre + mine if case["pre_first"] else mine + pre
                    q = an(set_of([V[v] for v in sel], *conds))
                abandon(q, case.get("abandon_first", 0))
                first = [tuple(r[V[v]] for v in sel) for r in q.evaluate()]
                for n in (2, 3):
                    again = [tuple(r[V[v]] for v in sel) for r in q.evaluate()]
                    if {ident(r) for r in again} != {ident(r) for r in first}:
                        raise _Reevaluation(f"evaluation {n} gave {show_rows(again)}, the first one {show_rows(first)}")
                return first
        else:   # selected
            expected = []
            for x0, x1 in itertools.product(doms[0], doms[1]):
                env = {0: x0, 1: x1}
                if A.eval_cond(case["c0"], env) and A.eval_cond(case["c1"], env):
                    expected.append((x0, x1))
            n_all = len(doms[0]) * len(doms[1])
            nontrivial = 0 < len(expected) < n_all

            def run(which):
                V, conts = declare_vars(case, objs)
                with symbolic_mode():
                    if which == "composed":
                        q0 = a(V[0], build_cond(case["c0"], V))
                        q1 = a(V[1], build_cond(case["c1"], V))
                        q = an(set_of([q0, q1]))
                    else:
                        q = an(set_of([V[0], V[1]], build_cond(case["c0"], V), build_cond(case["c1"], V)))
                abandon(q, case.get("abandon_first", 0))
                return _eval3(q, lambda r: (r[V[0]], r[V[1]]))
    from entity_query_language.cache_data import enable_caching, disable_caching
    results = {}
    for name, v in list(variants.items()) + [(n + "_uncached", v) for n, v in variants.items()]:
        try:
            (disable_caching if name.endswith("_uncached") else enable_caching)()
            try:
                results[name] = run(v)
            finally:
                enable_caching()
        except _Reevaluation as e:
            return fail("reevaluation_" + name, f"{name} query: {e}; expected {show_rows(expected)}", nontrivial=nontrivial,
                        classes=classes, features=feats + [name])
        except Exception as e:
            return fail("exception_" + name, f"{name} query: {type(e).__name__}: {e}; expected {show_rows(expected)}",
                        nontrivial=nontrivial, classes=classes, features=feats + [name])
    for name in ("inlined", "composed", "inlined_uncached", "composed_uncached"):
        bad = compare_sets(expected, results[name], False)
        if bad:
            other = "composed" if name.startswith("inlined") else "inlined"
            return fail(name + "_" + bad[0], f"{name} query: {bad[1]}; the {other} query gives {show_rows(results[other])}",
                        nontrivial=nontrivial, classes=classes, features=feats + [name])
    return Outcome(True, nontrivial=nontrivial, classes=classes, features=feats)


def _eval3(q, project):
    """The same query object evaluated three times: every evaluation must give the row set of the first one."""
    first = [project(r) for r in q.evaluate()]
    for n in (2, 3):
        again = [project(r) for r in q.evaluate()]
        if {ident(r) for r in again} != {ident(r) for r in first}:
            raise _Reevaluation(f"evaluation {n} gave {show_rows(again)}, the first one {show_rows(first)}")
    return first


def _mk(objs, idxs):
    return [objs[i] for i in idxs]


def render(case):
    r = {"entities": [f"#{i}:{e['cls']}(k={e['k']},a={e['a']},b={e['b']},s={e['s']!r},ref=#{e['ref']})" for i, e in enumerate(case["ents"])],
         "doms": case["doms"], "position": case["position"]}
    if case["position"] == "condition":
        r["cond"] = A.r_cond(case["cond"])
        r["select"] = [A.r_term(t) for t in case["sel"]]
        r["split_top"] = case["split_top"]
    elif case["position"] in ("operand", "argument"):
        sub = f"{case['sub_quant']}(entity(v1, {A.r_cond(case['sub_cond'])}))"
        r["query"] = (f"an(entity(v0, {A.r_term(case['outer_term'])} == {sub}" if case["position"] == "operand"
                      else f"an(entity(Ent(From(dom0), ref={sub})")
        r["extra"] = A.r_cond(case["extra"]) if case.get("extra") else None
        r["sub_side"] = case["sub_side"]
    elif case["position"] == "operand_attr":
        sub = f"an(entity(v1, {A.r_cond(case['sub_cond'])})).{case['sub_attr']}"
        other = A.r_term(case["other"])
        cmp_ = f"{sub} {case['op']} {other}" if case["sub_side"] == "left" else f"{other} {case['op']} {sub}"
        if case.get("pred_form") is not None:
            pf = case["pred_form"]
            subq = f"an(entity(v1, {A.r_cond(case['sub_cond'])}))"
            cmp_ = f"{pf[1]}({subq})" if pf[0] == "cpred" else (f"{pf[1]}({subq}, {pf[2]})" if pf[0] == "fpred" else f"HasType({subq}, {pf[1]})")
        pre = A.r_cond(case["pre"]) if case["pre"] is not None else None
        r["query"] = f"an(set_of({[A.r_term(t) for t in case['sel']]}, " + ", ".join(
            [x for x in ([pre, cmp_] if case["pre_first"] else [cmp_, pre]) if x]) + "))" + \
            (" [the two conditions combined by or_]" if case.get("conn") == "or" else "")
    else:
        r["query"] = f"an(set_of([a(v0, {A.r_cond(case['c0'])}), a(v1, {A.r_cond(case['c1'])})]))"
    return r
