"""C19 - values are not truth: falsy values are handled like any other value.

Generator : the C01/C02 query generators on the FALSY value profile (0, '', (), [], None, False as attribute values,
            tuple elements, dictionary values, method results, constants), falsy values only in VALUE positions.
Oracle    : (i) the Python-semantics reference; (ii) a metamorphic TRUTHY TWIN: an injective, order- and
            equality-preserving relabelling phi of the value alphabet onto truthy values (i -> i+10, s -> '#'+s,
            t -> phi(t)+(99,), None -> 'N!', False/0 -> 10, True/1 -> 11, kids -> kids+[sentinel]) applied to the data
            and to the query constants alike; both queries must select the same entity indices / phi-related values.
"""
from __future__ import annotations

import copy

from hypothesis import strategies as st

from .. import ast as A
from ..runner import Outcome, fail, open_features
from ..strategies import Cfg, query_case, chance
from ..world import build_entities, enc, dec
from ..qcheck import (reference_rows, run_query, compare_sets, case_features, all_vars_selected, render_query,
                      used_vars, falsy_in_play, row_consistency)

ID = "C19"
TITLE = "Values are not truth: falsy values are handled like any other value"
TECHNIQUE = "property-based testing (Hypothesis): reference evaluator + metamorphic truthy-twin relabelling"
RULE = ("cases = C01/C02-style queries drawn by Hypothesis over datasets whose attribute values, tuple elements, dict "
        "values, method results and constants include 0, '', (), [], None, False; each result is compared with the "
        "Python reference and with the result of the truthy-twin query (same indices must be selected). Non-trivial = a "
        "falsy value is the value of a value-position operand on some assignment (or a falsy constant operand) and the "
        "expected result is non-empty; distinct = distinct canonical JSON.")
BUDGET = {"quick": (8, 600), "thorough": (16, 5000)}
ASSUMPTIONS = ["substring / startswith tests are not generated here (no relabelling of '' preserves them); they are "
               "covered with falsy data by C01's reference oracle"]


def _cfg(tier):
    return Cfg(nvars=(1, 3), pool=(2, 5), dom=(1, 3), max_product=27, profile="falsy", max_depth=2,
               allow_empty_cond=False, select="any", desc=("entity", "set_of"), value_terms_in_select=True,
               force_relate=False, noise=False, dom_kinds=("list",), use_k=False,
               exclude_leaves=frozenset({"substr", "starts", "tval", "fpred1d"}), kw_vars=(1, 4), const_operands=(0, 1),
               allow_nested_not="not_under_not" not in open_features())


@st.composite
def _with_prelude(draw, tier):
    if chance(draw, 1, 16):
        # the domain of a variable is ONE object, not a collection (let(T, domain=obj) / T(From(obj))); the object is an
        # instance of a container-like class whose __len__ is 0 (falsy), its twin an ordinary (truthy) instance with the
        # same fields.  n instances of the class exist, the variable ranges over the given one only.
        vals = [draw(st.sampled_from([0, 1, 2, "", "x", None])) for _ in range(draw(st.integers(1, 4)))]
        return {"family": "single_object_domain", "vals": vals, "pick": draw(st.integers(0, len(vals) - 1)),
                "decl": draw(st.sampled_from(["let", "from"])),
                "cond": draw(st.sampled_from([None, None, ["==", draw(st.sampled_from(vals))], ["!=", draw(st.sampled_from(vals))]])),
                "selects": draw(st.sampled_from(["var", "val"]))}
    if chance(draw, 1, 8):
        # the flatten family (generator, builder and UNNEST reference of C16) over inner values that include falsy
        # scalars and falsy elements: a flattened element is a value like any other
        from . import c16
        return {"family": "flatten", "flat": draw(c16.strategy(tier))}
    if chance(draw, 1, 8):
        # ONE expression object f (x.o, x.a, x.tags[0], x.s) stands in condition position and is passed on as a VALUE to a
        # predicate, inside one disjunction: or_(f, HasType(f, int)), or_(p_val_eq(f, 0), f).  Only an occurrence in
        # condition position is read as a boolean.  (No truthy twin here: relabelling would change what the condition
        # occurrence means; the Python reference decides.)
        import dataclasses
        cfg = dataclasses.replace(_cfg(tier), exclude_leaves=frozenset({"substr", "starts", "fpred1d"}), force_template="truth_or_value_pred",
                                  nvars=(1, 2), kw_vars=(0, 1))
        case = draw(query_case(cfg))
        case["share_terms"] = True
        case["no_twin"] = True
        return case
    case = draw(query_case(_cfg(tier)))
    if chance(draw, 1, 3):
        # the value-position expressions of the query also occur in an EARLIER query over the same variables, as the SAME
        # expression objects (f = x.a; q1 = an(entity(x, f)); q2 = an(entity(x, f == 0))): there in condition position
        # (or there as a value); what a position means belongs to the occurrence, not to the object
        terms = [t for t in list(A.terms_of(case["cond"])) + [t for t in case["sel"]] if A.term_has_mapping(t) and t[0] != "flat"]
        uniq = []
        for t in terms:
            if t not in uniq:
                uniq.append(t)
        if uniq:
            chosen = list(draw(st.permutations(uniq)))[:draw(st.integers(1, min(2, len(uniq))))]
            leaves = [["truth", t] if chance(draw, 3, 4) else ["cmp", "!=", t, ["const", 77]] for t in chosen]
            case["prelude"] = leaves[0] if len(leaves) == 1 else [draw(st.sampled_from(["and", "or"])), "nary", leaves]
            case["share_terms"] = True
    return case


def strategy(tier):
    return _with_prelude(tier)


# ---- the relabelling phi ----------------------------------------------------------------------------

def phi(v):
    if v is None:
        return "N!"
    if isinstance(v, bool):
        return 11 if v else 10
    if isinstance(v, int):
        return v + 10
    if isinstance(v, str):
        return "#" + v
    if isinstance(v, tuple):
        return tuple(phi(x) for x in v) + (99,)
    if isinstance(v, list):
        return [phi(x) for x in v] + [99]
    raise TypeError(v)


def _phi_term(t):
    k = t[0]
    if k == "const":
        return ["const", enc(phi(dec(t[1])))]
    if k == "var":
        return t
    if k == "call":
        args = t[3]
        if t[2] == "at_least":
            args = [enc(phi(dec(a))) for a in args]
        return ["call", _phi_term(t[1]), t[2], args]
    if k == "pcall":
        return ["pcall", t[1], [_phi_term(a) for a in t[2]]]
    if k in ("attr", "flat"):
        return [k, _phi_term(t[1])] + t[2:]
    if k == "idx":
        return ["idx", _phi_term(t[1]), t[2]]
    raise ValueError(t)


def _phi_cond(c):
    k = c[0]
    if k == "cmp":
        return ["cmp", c[1], _phi_term(c[2]), _phi_term(c[3])]
    if k == "in":
        return ["in", c[1], _phi_term(c[2]), _phi_term(c[3])]
    if k == "truth":
        return ["truth", _phi_term(c[1])]
    if k in ("fpred", "cpred"):
        args = [_phi_term(a) for a in c[2]]
        if c[1] == "p_a_ge_dflt" and len(args) == 1:
            args.append(["const", enc(phi(1))])          # the default n=1 is a constant of the query: relabelled like the others
        return [k, c[1], args]
    if k in ("hastype", "const"):
        return c
    if k in ("and", "or"):
        return [k, c[1], [_phi_cond(x) for x in c[2]]]
    if k == "not":
        return ["not", c[1], _phi_cond(c[2])]
    raise ValueError(c)


def twin(case):
    t = copy.deepcopy(case)
    n = len(t["ents"])
    for r in t["ents"]:
        r["a"] = phi(r["a"])
        r["b"] = phi(r["b"])
        r["s"] = phi(r["s"])
        r["tags"] = list(phi(tuple(r["tags"])))
        r["o"] = enc(phi(dec(r["o"])))
        r["kids"] = list(r["kids"]) + [n]          # sentinel entity appended to every kids list
        r["d"] = {k: phi(v) for k, v in r["d"].items()}
    t["ents"].append({"cls": "Ent", "k": 99, "a": 99, "b": 99, "s": "#sentinel", "tags": [99], "o": 99, "ref": n,
                      "kids": [n], "d": {"p": 99, "q": 99}})
    for vd in t["vars"]:
        if vd.get("kw"):
            vd["kw"] = [[f, enc(phi(dec(c)))] for f, c in vd["kw"]]
    if t.get("cond") is not None:
        t["cond"] = _phi_cond(t["cond"])
    if t.get("prelude") is not None:
        t["prelude"] = _phi_cond(t["prelude"])
    t["sel"] = [_phi_term(x) for x in t["sel"]]
    return t


def _index_rows(rows, objs, map_values):
    idx = {id(o): i for i, o in enumerate(objs)}
    out = []
    for r in rows:
        out.append(tuple(("e", idx[id(v)]) if id(v) in idx else ("v", repr(map_values(v))) for v in r))
    return out


def _check_flatten(case) -> Outcome:
    from . import c16
    out = c16.check(case["flat"])
    fc = case["flat"]
    falsy_inner = any((not r.get(fc["inner"])) or (isinstance(r.get(fc["inner"]), list) and any(not x for x in r[fc["inner"]]))
                      for i, r in enumerate(fc["ents"]) if i in fc["doms"][0]) if fc["inner"] != "kids" else False
    classes = ["family_flatten", "inner_" + fc["inner"]] + (["falsy_inner_value"] if falsy_inner else [])
    if out.ok or "parent_only_disjunction_with_empty_inner" in out.features:      # (KF-28 is C16's open finding)
        return Outcome(True, nontrivial=falsy_inner, classes=classes, features=classes)
    return fail("flatten_" + out.kind, "flattened elements as values: " + out.detail, nontrivial=falsy_inner, classes=classes,
                features=classes)


def _check_single_object_domain(case) -> Outcome:
    import operator
    from entity_query_language import an, entity, let, symbolic_mode, From
    from entity_query_language.symbolic import Variable
    from ..world import Made, MadeEmpty
    classes = ["family_single_object_domain", "declared_by_" + case["decl"]]
    feats = ["single_object_domain"]
    c = case.get("cond")
    results = {}
    for label, cls in (("falsy", MadeEmpty), ("truthy_twin", Made)):
        for c_ in list(Variable._cache_.values()):
            c_.clear()
        Variable._cache_.clear()
        objs = [cls(src=i, val=v) for i, v in enumerate(case["vals"])]
        mine = objs[case["pick"]]
        holds = c is None or {"==": operator.eq, "!=": operator.ne}[c[0]](mine.val, c[1])
        expected = [(mine.src, mine.val)] if holds else []
        try:
            with symbolic_mode():
                v = let(cls, domain=mine) if case["decl"] == "let" else cls(From(mine))
                conds = [] if c is None else [(v.val == c[1]) if c[0] == "==" else (v.val != c[1])]
                q = an(entity(v if case["selects"] == "var" else v.val, *conds))
            got = list(q.evaluate())
        except Exception as e:
            return fail("exception", f"{label}: {type(e).__name__}: {e}", nontrivial=True, classes=classes, features=feats)
        if case["selects"] == "var":
            got_rows = [(o.src, o.val) for o in got]
        else:
            got_rows = [(mine.src, g) for g in got]
        results[label] = got_rows
        if sorted(map(repr, got_rows)) != sorted(map(repr, expected)):
            return fail("extra_rows" if len(got_rows) > len(expected) else "missing_rows",
                        f"{label}: {cls.__name__} instances with val {case['vals']}, variable over the single object #{case['pick']} "
                        f"({case['decl']}), condition {c}: expected {expected} got {got_rows}", nontrivial=True,
                        classes=classes, features=feats + [label])
    return Outcome(True, nontrivial=len(case["vals"]) >= 2, classes=classes, features=feats)


def check(case) -> Outcome:
    if case.get("family") == "flatten":
        return _check_flatten(case)
    if case.get("family") == "single_object_domain":
        return _check_single_object_domain(case)
    objs = build_entities(case["ents"])
    feats = case_features(case)
    expected, n_sat, n_all = reference_rows(case, objs)
    multiset = all_vars_selected(case)
    in_play = falsy_in_play(case, objs) or any(t[0] != "var" for t in case["sel"])
    nontrivial = in_play and n_sat > 0
    classes = [f for f in feats if f in ("join", "or_diff_vars", "or_same_vars", "not", "pred", "membership", "idx",
                                         "call", "vars1", "vars2", "vars3", "literal_left")]
    if in_play:
        classes.append("falsy_operand_in_play")
    if any(t[0] != "var" for t in case["sel"]):
        classes.append("value_selected")
    if case.get("prelude") is not None:
        classes.append("expression_objects_shared_with_earlier_query")
    try:
        got, _ = run_query(case, objs)
    except Exception as e:
        return fail("exception", f"{type(e).__name__}: {e}; expected {expected}", nontrivial=nontrivial,
                    classes=classes, features=feats)
    bad = compare_sets(expected, got, multiset)
    if bad:
        return fail(bad[0], bad[1], nontrivial=nontrivial, classes=classes, features=feats)
    inc = row_consistency(case, got)
    if inc:
        return fail("inconsistent_row", inc, nontrivial=nontrivial, classes=classes, features=feats)
    if case.get("no_twin"):
        return Outcome(True, nontrivial=nontrivial, classes=classes + ["value_also_in_condition_position"], features=feats)
    # ---- truthy twin
    tcase = twin(case)
    tobjs = build_entities(tcase["ents"])
    try:
        tgot, _ = run_query(tcase, tobjs)
    except Exception as e:
        return fail("twin_exception", f"truthy twin raised {type(e).__name__}: {e}", nontrivial=nontrivial,
                    classes=classes, features=feats)
    a = sorted(_index_rows(got, objs, phi))
    b = sorted(_index_rows(tgot, tobjs, lambda v: v))
    if (a != b) if multiset else (set(a) != set(b)):
        return fail("twin_mismatch", f"falsy data selects {a} but its truthy twin selects {b}", nontrivial=nontrivial,
                    classes=classes, features=feats)
    return Outcome(True, nontrivial=nontrivial, classes=classes, features=feats)


def render(case):
    if case.get("family") == "single_object_domain":
        return dict(case)
    if case.get("family") == "flatten":
        from . import c16
        return {"family": "flatten", **c16.render(case["flat"])}
    return render_query(case)
