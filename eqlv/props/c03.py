"""C03 - negation returns the exact complement, at any nesting depth.

Generator : a condition c over 1-2 variables from the C01/C02 grammar INCLUDING negations at any depth; for each case
            queries are built freshly from the AST with 0, 1, 2 and 3 outer negations, spelled not_(c), ~c, or applied
            to the entity(...)/set_of(...) descriptor.
Oracle    : R(c) by the Python-semantics reference over the Cartesian product P; rows(not^k c) == R(c) for even k and
            P - R(c) for odd k (multisets: every variable is selected).
"""
from __future__ import annotations

import itertools

from .. import ast as A
from ..runner import Outcome, fail, open_features
from ..strategies import Cfg, Ctx, query_case, leaf, chance
from ..world import build_entities, enc
from ..build import build_query, rows_of
from ..qcheck import reference_rows, compare_sets, case_features, render_query, all_vars_selected
from hypothesis import strategies as st

ID = "C03"
TITLE = "Negation returns the exact complement, at any nesting depth"
TECHNIQUE = "property-based testing (Hypothesis) + exhaustive operator/inverse table, against a Python-semantics reference"
RULE = ("cases = condition trees over 1-2 variables (negations at any depth) drawn by Hypothesis, plus an exhaustive slice "
        "of every comparison operator x {attr-const, const-attr, attr-attr} x membership (in_/contains) x boolean call x "
        "function/class predicate; each is evaluated under 0,1,2,3 outer negations (not_, ~, or negated descriptor) and "
        "compared with the reference rows / their complement in the product. Non-trivial = c has a connective or an "
        "inner negation and its satisfying set is a non-empty proper subset of the product (exhaustive-slice leaves "
        "count when proper); distinct = distinct canonical JSON.")
BUDGET = {"quick": (8, 500), "thorough": (16, 4000)}
EXHAUSTIVE_NOTE = {"quick": "6 operators x 3 operand layouts + membership/boolean-call/predicate leaves, x 2 datasets x 0..3 negations x 3 spellings",
                   "thorough": "same slice, 4 datasets"}
ASSUMPTIONS = ["a ResultQuantifier is never negated (Not raises NotImplementedError by design)"]


def _cfg(tier):
    avoid = open_features()
    return Cfg(nvars=(1, 2), pool=(2, 5), dom=(1, 4), max_product=16,
               profile="falsy" if "falsy_values" not in avoid else "clean", max_depth=3, allow_empty_cond=False,
               select="any", desc=("entity", "set_of"), force_relate=True, noise=False, dom_kinds=("list",),
               avoid=frozenset(avoid), earlier_sharing=(1, 5),
               extra_templates=("not_and_then_other", "not_and_then_other", "and_left_or_then_other"))


@st.composite
def _case(draw, tier):
    if chance(draw, 1, 12):
        # the "implicit first argument" spelling of the repository's tests: predicate terms written as STATEMENTS inside
        # `with a(T(From(d))) as q:`, negated afterwards with not_ / ~ (0-3 times)
        from ..strategies import draw_dataset
        cfg = _cfg(tier)
        recs = draw_dataset(draw, cfg)
        stmts = [{"pred": draw(st.sampled_from(["hastype:EntSub", "hastype:EntPlain", "hastype:EntV", "isbig"])),
                  "negs": [draw(st.sampled_from(["not_", "~"])) for _ in range(draw(st.sampled_from([0, 1, 1, 1, 2, 3])))]}
                 for _ in range(draw(st.sampled_from([1, 1, 2])))]
        return {"family": "implicit", "ents": recs, "dom": list(draw(st.permutations(list(range(len(recs)))))), "stmts": stmts}
    c = draw(query_case(_cfg(tier)))
    c["neg_spelling"] = draw(st.sampled_from(["not_", "not_", "~", "desc"]))
    c["abandon_first"] = draw(st.sampled_from([0, 0, 1, 1, 2]))
    if chance(draw, 1, 5):
        # a three-step story around one comparison object k: first asked for its false results too, but only for part of
        # its bindings (narrowed by another conjunct, or given up early); then asked for true results only, for all
        # bindings; then negated inside a conjunction (the disjunction De Morgan makes of it needs the false results of k)
        cfg = _cfg(tier)
        ctx = Ctx(cfg, c["ents"], len(c["vars"]))
        v = draw(st.integers(0, len(c["vars"]) - 1))
        k = draw(st.sampled_from([["cmp", draw(st.sampled_from(["==", ">=", "<"])), ["attr", ["var", v], draw(st.sampled_from(["a", "b"]))],
                                   ["const", draw(st.sampled_from(ctx.P["ints"]))]], leaf(draw, ctx, [v])]))
        if k[0] in ("cmp", "in"):
            narrow, other, flag = leaf(draw, ctx, [v]), leaf(draw, ctx, [v]), leaf(draw, ctx, [v])
            first = {"cond": ["and", "nary", [narrow, ["or", "nary", [k, other]]]], "take": None} if draw(st.booleans()) else \
                {"cond": ["or", "nary", [k, other]], "take": draw(st.sampled_from([1, 1, 2]))}
            c["earlier_queries_sharing_comparisons"] = [first, {"cond": k, "take": None}]
            c["cond"] = ["and", draw(st.sampled_from(["nary", "binl"])), [k, flag]]
            c["share_terms"] = False
            c["all_queries_built_before_any_is_evaluated"] = draw(st.booleans())
    return c


def strategy(tier):
    return _case(tier)


_V = ["var", 0]
_W = ["var", 1]


def _leaves():
    ops = ["==", "!=", "<", "<=", ">", ">="]
    for op in ops:
        yield 1, ["cmp", op, ["attr", _V, "a"], ["const", 2]]
        yield 1, ["cmp", op, ["const", 2], ["attr", _V, "a"]]
        yield 1, ["cmp", op, ["attr", _V, "a"], ["attr", _V, "b"]]
        yield 2, ["cmp", op, ["attr", _V, "a"], ["attr", _W, "b"]]
        yield 1, ["cmp", op, ["attr", _V, "s"], ["const", "x"]]
    for form in ("in_", "contains"):
        yield 1, ["in", form, ["const", 2], ["attr", _V, "tags"]]
        yield 1, ["in", form, ["attr", _V, "a"], ["const", enc((1, 3))]]
        yield 1, ["in", form, ["const", "x"], ["attr", _V, "s"]]
        yield 2, ["in", form, _V, ["attr", _W, "kids"]]
    yield 1, ["truth", ["call", _V, "is_big", []]]
    yield 1, ["truth", ["call", _V, "at_least", [2]]]
    yield 1, ["truth", ["call", ["attr", _V, "s"], "startswith", ["x"]]]
    yield 1, ["fpred", "p_a_ge", [_V, ["const", 2]]]
    yield 2, ["fpred", "p_a_lt", [_V, _W]]
    yield 1, ["cpred", "IsBig", [_V]]
    yield 2, ["cpred", "BLess", [_V, _W]]
    yield 1, ["hastype", _V, "EntSub"]
    yield 2, ["cmp", "==", ["attr", _V, "ref"], _W]
    yield 2, ["cmp", "!=", _V, _W]


def _datasets():
    def ds(rows):
        return [{"cls": c, "k": i + 1, "a": a, "b": b, "s": s, "tags": t, "o": 1, "ref": r, "kids": kd,
                 "d": {"p": 1, "q": 2}} for i, (c, a, b, s, t, r, kd) in enumerate(rows)]
    return [
        ds([("Ent", 1, 2, "x", [2], 1, [1]), ("EntSub", 2, 1, "y", [1, 2], 2, [0, 2]), ("Ent", 3, 3, "xy", [3], 0, [1])]),
        ds([("Ent", 3, 1, "y", [3, 2], 0, [2]), ("Ent", 2, 2, "x", [1], 2, [0]), ("EntSub", 2, 3, "xy", [2], 1, [1, 1])]),
        ds([("EntPlain", 0, 2, "", [], 0, []), ("Ent", 2, 0, "y", [0], 0, [0]), ("Ent", 1, 2, "x", [3], 1, [2])]),
        ds([("Ent", 1, 1, "y", [1], 0, [0]), ("Ent", 3, 3, "x", [2], 1, [1]), ("EntSub", 2, 2, "x", [2, 3], 2, [])]),
    ]


def exhaustive(tier, shard, nshards):
    datasets = _datasets()[:2 if tier == "quick" else 4]
    i = 0
    for nv, leaf in _leaves():
        for ds in datasets:
            for sp in ("not_", "~", "desc"):
                i += 1
                if i % nshards != shard:
                    continue
                vars_ = [{"dom": 0, "decl": "let", "type": "Ent"}] + ([{"dom": 1, "decl": "let", "type": "Ent"}] if nv == 2 else [])
                yield {"ents": ds, "doms": [[0, 1, 2], [2, 0, 1]][:nv], "vars": vars_, "cond": leaf, "dom_kind": "list",
                       "split_top": False, "quant": "an", "sel": [["var", v] for v in range(nv)],
                       "desc": "entity" if nv == 1 else "set_of", "neg_spelling": sp, "slice": True}


def _check_implicit(case) -> Outcome:
    from entity_query_language import a, From, symbolic_mode, HasType, not_
    from ..world import Ent, IsBig, CLASSES
    objs = build_entities(case["ents"])
    dom = [objs[i] for i in case["dom"]]

    def holds(o, st_):
        v = (o.k >= 2) if st_["pred"] == "isbig" else isinstance(o, CLASSES[st_["pred"].split(":")[1]])
        return v != (len(st_["negs"]) % 2 == 1)
    expected = [(o,) for o in dom if isinstance(o, Ent) and all(holds(o, st_) for st_ in case["stmts"])]
    classes = ["implicit_first_argument", f"statements{len(case['stmts'])}"] + sorted({f"negations{len(st_['negs'])}" for st_ in case["stmts"]})
    nontrivial = 0 < len(expected) < len(dom) and any(st_["negs"] for st_ in case["stmts"])
    try:
        with symbolic_mode():
            with a(Ent(From(dom))) as q:
                for st_ in case["stmts"]:
                    e = IsBig() if st_["pred"] == "isbig" else HasType(CLASSES[st_["pred"].split(":")[1]])
                    for n in st_["negs"]:
                        e = not_(e) if n == "not_" else ~e
        for attempt in (1, 2):
            got = [(r,) for r in q.evaluate()]
            bad = compare_sets(expected, got, True)
            if bad:
                return fail(("" if attempt == 1 else "reevaluation_") + bad[0],
                            f"implicit-first-argument statements {case['stmts']}, evaluation {attempt}: {bad[1]}",
                            nontrivial=nontrivial, classes=classes, features=classes)
    except Exception as e:
        return fail("exception", f"implicit-first-argument statements {case['stmts']}: {type(e).__name__}: {e}",
                    nontrivial=nontrivial, classes=classes, features=classes)
    return Outcome(True, nontrivial=nontrivial, classes=classes, features=classes)


def check(case) -> Outcome:
    if case.get("family") == "implicit":
        return _check_implicit(case)
    objs = build_entities(case["ents"])
    feats = case_features(case)
    cond = case["cond"]
    pos, n_sat, n_all = reference_rows(case, objs)
    multiset = all_vars_selected(case)      # under a projection the complement is compared as a set
    neg, _, _ = reference_rows(case, objs, negate=True)
    proper = 0 < n_sat < n_all
    nontrivial = proper and (bool(case.get("slice")) or A.has_kind(cond, "and", "or", "not"))
    sp = case.get("neg_spelling", "not_")
    classes = [f for f in feats if f in ("and", "or", "not", "not_under_not", "not_over_and", "not_over_or", "pred",
                                         "truth", "membership", "join", "vars1", "vars2", "literal_left")]
    classes.append("spelling_" + sp)
    if case.get("slice"):
        classes.append("operator_table")
    for k in (0, 1, 2, 3):
        expected = pos if k % 2 == 0 else neg
        try:
            if sp == "desc":
                built = build_query(case, objs, negate_desc=k)
            else:
                built = build_query(case, objs, negate=k, neg_form=sp)
            if case.get("abandon_first"):
                # an evaluation abandoned after a few results must not change what the next one returns (C04 for
                # negated conditions: De Morgan rewrites build operators with result caches of their own)
                it = built.q.evaluate()
                for _ in range(case["abandon_first"]):
                    if next(it, None) is None:
                        break
                it.close()
            got = rows_of(built, list(built.q.evaluate()))
            again = rows_of(built, list(built.q.evaluate()))
            if compare_sets(got, again, multiset):
                return fail("reevaluation_differs", f"{k} outer negation(s) [{sp}] of {A.r_cond(cond)}: first full "
                                                    f"evaluation {got}, second {again}", nontrivial=nontrivial,
                            classes=classes, features=feats + [f"outer_neg{k}"])
        except Exception as e:
            return fail("exception", f"{k} negation(s) [{sp}]: {type(e).__name__}: {e}", nontrivial=nontrivial,
                        classes=classes, features=feats + [f"outer_neg{k}"])
        bad = compare_sets(expected, got, multiset)
        if bad:
            return fail(bad[0], f"{k} outer negation(s) [{sp}] of {A.r_cond(cond)}: {bad[1]}", nontrivial=nontrivial,
                        classes=classes, features=feats + [f"outer_neg{k}"])
    return Outcome(True, nontrivial=nontrivial, classes=classes, features=feats)


def render(case):
    if case.get("family") == "implicit":
        return {"family": "predicate statements inside `with a(Ent(From(d))) as q:`", "statements": case["stmts"],
                "domain": [case["ents"][i]["cls"] + "#" + str(case["ents"][i]["k"]) for i in case["dom"]]}
    r = render_query(case)
    r["negation_spelling"] = case.get("neg_spelling")
    return r
