"""C20 - the result-cache index returns exactly the stored entries matching a lookup.

Generator : key list (1-4 distinct ints, any order), value alphabet (2-3 values, raw hashables or
            HashedValue wrappers as production uses), a sequence of inserts under non-empty full or
            partial bindings (distinct outputs, overwrites allowed), clear(), re-keying.
Oracle    : an ordered list of (binding, output) with last-write-wins on identical bindings.  After EVERY
            operation, for EVERY lookup of the finite lookup space: retrieve() as a multiset of
            (merged binding, output) equals the model's matching entries; check() for lookups binding >= 1
            key equals "some stored binding is contained in the lookup"; clear()/re-keying empty it.
"""
from __future__ import annotations

import itertools
from collections import Counter

from hypothesis import strategies as st

from ..runner import Outcome, fail

ID = "C20"
TITLE = "The result-cache index returns exactly the stored entries matching a lookup"
TECHNIQUE = "model-based property testing (Hypothesis) + exhaustive small-scope enumeration of insert sequences x all lookups"
RULE = ("cases = (key list, alphabet, op sequence) drawn by Hypothesis, plus every insert sequence of length <=3 over "
        "2 keys x 2 values (<=2 over 3 keys); after every op every lookup of the finite lookup space is compared with "
        "a list model. A case is non-trivial when at some point the store holds two compatible bindings with different "
        "key sets (a wildcard entry next to a concrete sibling) and lookups leaving >=1 key unbound are compared; "
        "distinct = distinct canonical JSON of the case.")
BUDGET = {"quick": (4, 700), "thorough": (16, 20000)}
FUZZ = (8, 3000)     # coverage-guided tier (thorough): processes, libFuzzer runs per process
EXHAUSTIVE_NOTE = {"quick": "all insert sequences of length <=3 over 2 keys x 2 values (584) x all 9+16 lookups",
                   "thorough": "as quick, plus all insert sequences of length <=2 over 3 keys x 2 values and "
                               "length <=4 over 2 keys x 2 values"}
ASSUMPTIONS = ["bindings passed to insert() are non-empty for indexed storage (empty bindings go to the flat store "
               "and are outside the statement)", "check() is only asked for lookups binding at least one cache key"]

STRANGER = 7  # a value index that is never inserted


# ----------------------------------------------------------------------------- generation

@st.composite
def _case2(draw):
    """Draw the key list first, then ops that may re-key; bindings always use the keys current at that op."""
    # (ranges start at 0 and are shifted afterwards: Hypothesis 6.168's byte-string provider, which the coverage-guided
    # tier drives through fuzz_one_input, cannot satisfy st.integers(lo, hi) with lo > 0 and a narrow range)
    nkeys = 1 + draw(st.integers(0, 3))
    keys0 = draw(st.lists(st.integers(0, 9), min_size=nkeys, max_size=nkeys, unique=True))
    nvals = 2 + draw(st.integers(0, 1 if nkeys <= 3 else 0))
    wrap = draw(st.booleans())
    extra = draw(st.sampled_from([False, False, True]))
    cur = list(keys0)
    ops = []
    for _ in range(1 + draw(st.integers(0, 7))):
        kind = draw(st.sampled_from(["ins"] * 12 + ["clear", "rekey"]))
        if kind == "ins":
            ks = draw(st.lists(st.sampled_from(cur), min_size=1, max_size=len(cur), unique=True))
            ops.append(["ins", {str(k): draw(st.integers(0, nvals - 1)) for k in sorted(ks)}])
        elif kind == "rekey":
            cur = draw(st.lists(st.integers(0, 9), min_size=nkeys, max_size=nkeys, unique=True))
            ops.append(["rekey", list(cur)])
        else:
            ops.append([kind])
    # plain Python values as binding values, the falsy ones included (0 and '' are values like any other)
    plain = (not wrap) and draw(st.booleans())
    return {"keys": keys0, "nvals": nvals, "wrap": wrap, "plain": plain, "extra_key": extra, "ops": ops,
            "caller_reuses_its_dict": draw(st.sampled_from([None, None, "clear", "overwrite"])),
            "none_outputs": draw(st.sampled_from([False, False, True]))}


def strategy(tier):
    return _case2()


def exhaustive(tier, shard, nshards):
    def seqs(keys, nvals, maxlen):
        bindings = []
        for combo in itertools.product([None] + list(range(nvals)), repeat=len(keys)):
            b = {str(k): v for k, v in zip(keys, combo) if v is not None}
            if b:
                bindings.append(b)
        for n in range(1, maxlen + 1):
            for seq in itertools.product(bindings, repeat=n):
                yield [["ins", dict(b)] for b in seq]

    plans = [([5, 2], 2, 3)]
    if tier == "thorough":
        plans += [([4, 1, 8], 2, 2), ([2, 5], 2, 4)]
    i = 0
    for keys, nvals, maxlen in plans:
        for ops in seqs(keys, nvals, maxlen):
            i += 1
            if i % nshards != shard:
                continue
            for wrap, plain in ((False, False), (True, False), (False, True)):
                yield {"keys": keys, "nvals": nvals, "wrap": wrap, "plain": plain, "extra_key": False, "ops": ops}


# ----------------------------------------------------------------------------- the check

class _Obj:
    def __init__(self, i):
        self.i = i

    def __repr__(self):
        return f"v{self.i}"


def check(case) -> Outcome:
    from entity_query_language.cache_data import IndexedCache
    from entity_query_language.hashed_data import HashedValue

    nvals, wrap = case["nvals"], case["wrap"]
    objs = {i: _Obj(i) for i in list(range(nvals)) + [STRANGER]}
    if wrap:
        def val(i):
            return HashedValue(objs[i])   # a *fresh* wrapper per use, equal by id_ as in production

        def canon(v):
            return v.value.i if isinstance(v, HashedValue) else ("?", repr(v))
    elif case.get("plain"):
        PLAIN = {0: 0, 1: "", 2: 1, STRANGER: "zz"}           # distinct hashable values; the first two are falsy
        back = {(type(v).__name__, v): i for i, v in PLAIN.items()}

        def val(i):
            return PLAIN[i]

        def canon(v):
            return back.get((type(v).__name__, v), ("?", repr(v)))
    else:
        names = {i: f"v{i}" for i in objs}

        def val(i):
            return names[i]

        def canon(v):
            return int(v[1:]) if isinstance(v, str) and v.startswith("v") else ("?", repr(v))

    keys = list(case["keys"])
    cache = IndexedCache(list(keys))
    model = []          # list of (binding: dict key->value index, output)
    classes = (["caller_mutates_the_dict_it_passed"] if case.get("caller_reuses_its_dict") else []) + ["wrapped" if wrap else ("plain_values_incl_falsy" if case.get("plain") else "raw"), f"keys{len(keys)}"]
    nontrivial = False
    n_out = 0
    lookups_compared = 0

    def compare_all(step):
        nonlocal lookups_compared
        srt = sorted(keys)
        options = [None] + list(range(nvals)) + ([STRANGER] if len(keys) <= 2 else [])
        for combo in itertools.product(options, repeat=len(srt)):
            lookup_idx = {k: v for k, v in zip(srt, combo) if v is not None}
            lookup = {k: val(v) for k, v in lookup_idx.items()}
            merged_extra = {}
            if case["extra_key"]:
                lookup[99] = val(0)
                merged_extra = {99: 0}
            lookups_compared += 1
            expected = Counter()
            for b, o in model:
                if all(lookup_idx[k] == v for k, v in b.items() if k in lookup_idx):
                    m = {**lookup_idx, **b, **merged_extra}
                    expected[(tuple(sorted(m.items())), o)] += 1
            try:
                got_raw = list(cache.retrieve(dict(lookup)))
            except Exception as e:  # retrieval of a well-formed lookup never raises
                return fail("exception", f"step {step}: retrieve({lookup_idx}) raised {type(e).__name__}: {e}")
            got = Counter()
            for res, o in got_raw:
                got[(tuple(sorted((k, canon(v)) for k, v in res.items())), o)] += 1
            if got != expected:
                missing = expected - got
                extra = got - expected
                kind = "missing_entries" if missing and not extra else ("extra_entries" if extra and not missing
                                                                        else "wrong_entries")
                return fail(kind, f"step {step}: retrieve({lookup_idx}) expected {dict(expected)} got {dict(got)}; "
                                  f"model={model}")
            if lookup_idx:
                exp_cov = any(all(k in lookup_idx and lookup_idx[k] == v for k, v in b.items()) for b, _ in model)
                got_cov = cache.check(dict(lookup))
                if bool(got_cov) != exp_cov:
                    return fail("wrong_coverage", f"step {step}: check({lookup_idx}) expected {exp_cov} got {got_cov}; "
                                                  f"model={model}")
        return None

    for step, op in enumerate(case["ops"]):
        if op[0] == "ins":
            b = {int(k): v for k, v in op[1].items()}
            out = None if (case.get("none_outputs") and n_out % 3 == 1) else f"o{n_out}"      # None is an output like any other
            n_out += 1
            passed = {k: val(v) for k, v in b.items()}
            cache.insert(passed, out)
            if case.get("caller_reuses_its_dict"):
                # the caller goes on using the dict it passed (the "one binding dict updated in a loop" idiom): what the
                # cache stored must not be an alias of it
                how = case["caller_reuses_its_dict"]
                if how == "clear":
                    passed.clear()
                else:
                    for k_ in list(passed):
                        passed[k_] = val(STRANGER)
            model = [(mb, mo) if mb != b else (mb, out) for mb, mo in model]
            if not any(mb == b for mb, _ in model):
                model.append((b, out))
        elif op[0] == "flat":
            pass   # empty-binding inserts are outside the statement ("full or partial key bindings"); not generated
        elif op[0] == "clear":
            cache.clear()
            model = []
            classes.append("clear")
        elif op[0] == "rekey":
            keys = list(op[1])
            cache.keys = list(keys)
            model = []
            classes.append("rekey")
        for (b1, _), (b2, _) in itertools.combinations(model, 2):
            if set(b1) != set(b2) and all(b1[k] == b2[k] for k in set(b1) & set(b2)):
                nontrivial = True
        bad = compare_all(step)
        if bad is not None:
            bad.classes = classes
            bad.nontrivial = nontrivial
            return bad
    if nontrivial:
        classes.append("wildcard_next_to_concrete")
    return Outcome(True, nontrivial=nontrivial, classes=classes, extra={"lookups_compared": lookups_compared})


def render(case):
    return {"keys": case["keys"], "values": case["nvals"], "wrapped": case["wrap"],
            "ops": [op if op[0] != "ins" else f"insert {op[1]}" for op in case["ops"]]}
