"""C05 - result caching is transparent.

Generator : the multi-variable query generator of C02 with the templates the property singles out heavily weighted
            (conjunction whose right side is a different-variable disjunction, conjunction of two such disjunctions,
            >=2 left bindings re-entering the same right side), plus negation.  Each case builds the query TWICE from
            the AST (fresh variables each time): twin A is evaluated with caching enabled, twin B with caching disabled,
            each twice in a row, optionally after an evaluation that was abandoned after k results; a third build is evaluated
            four times while the configuration is switched off/on/off/on.
Oracle    : set(A1)==set(B1), set(A2)==set(B2) (multisets when all query variables are selected); 3-way with the
            Python-semantics reference.  A wrapper around IndexedCache.retrieve counts cache retrievals that returned
            >= 1 entry during run A (non-vacuity).
"""
from __future__ import annotations

from hypothesis import strategies as st

from .. import ast as A
from ..runner import Outcome, fail, open_features
from ..strategies import Cfg, query_case, chance
from ..world import build_entities
from ..build import build_query, rows_of
from ..qcheck import (reference_rows, compare_sets, case_features, all_vars_selected, render_query, used_vars)

ID = "C05"
TITLE = "Result caching is transparent"
TECHNIQUE = "differential property-based testing (caching enabled vs disabled, first run and re-run) + reference evaluator"
RULE = ("cases = C02-style multi-variable queries drawn by Hypothesis (templates: AND with a right-hand different-variable "
        "OR, AND of two ORs, overlapping OR, negation); every case is built twice and evaluated twice under caching "
        "enabled and twice under caching disabled; all four results are compared with each other and with the brute-force "
        "reference. Non-trivial = at least one cache retrieval returned an entry during the cached runs (otherwise both "
        "configurations executed the same code) and the result is non-empty; distinct = distinct canonical JSON.")
BUDGET = {"quick": (8, 700), "thorough": (16, 6000)}
ASSUMPTIONS = ["caching is switched with the public enable_caching()/disable_caching() functions"]


def _cfg(tier):
    avoid = open_features()
    return Cfg(nvars=(2, 3), pool=(2, 5), dom=(1, 3), max_product=27,
               profile="falsy" if "falsy_values" not in avoid else "clean", max_depth=2,
               allow_nested_not="not_under_not" not in avoid, allow_empty_cond=False,
               select="any", desc=("entity", "set_of"), force_relate=True, noise=False,
               dom_kinds=("list",), avoid=frozenset(avoid), kw_vars=(1, 6), earlier_sharing=(1, 5))


@st.composite
def _case(draw, tier):
    if chance(draw, 1, 6):
        # the flatten family (generator and builder of C16): a flattened element takes several values under ONE binding of
        # its variables, which result caches have to tell apart
        from . import c16
        return {"family": "flatten", "flat": draw(c16.strategy(tier))}
    if chance(draw, 1, 8):
        # the rule-tree family (generator, builder and reference of C12): selectors answer from result caches of their own
        from . import c12
        return {"family": "rule_tree", "tree": draw(c12.strategy(tier))}
    c = draw(query_case(_cfg(tier)))
    # optionally abandon an evaluation after k results before the compared evaluations (in BOTH configurations)
    c["pre_partial"] = draw(st.sampled_from([None, None, None, 1, 1, 2]))
    c["toggle_mid_evaluation"] = chance(draw, 1, 4)
    return c


def strategy(tier):
    return _case(tier)


_END = object()


class _HitCounter:
    def __init__(self):
        from entity_query_language import cache_data as C
        self.C = C
        self.hits = 0
        self.orig = C.IndexedCache.retrieve

    def __enter__(self):
        counter = self
        orig = self.orig

        def retrieve(self_, assignment=None, cache=None, key_idx=0, result=None, from_index=True):
            top = cache is None and from_index
            for item in orig(self_, assignment, cache, key_idx, result, from_index):
                if top:
                    counter.hits += 1
                yield item
        self.C.IndexedCache.retrieve = retrieve
        return self

    def __exit__(self, *a):
        self.C.IndexedCache.retrieve = self.orig


def evaluate_config(case, objs, caching: bool):
    from entity_query_language.cache_data import enable_caching, disable_caching
    (enable_caching if caching else disable_caching)()
    try:
        built = build_query(case, objs)
        if case.get("pre_partial"):
            it = built.q.evaluate()
            for _ in range(case["pre_partial"]):
                if next(it, None) is None:
                    break
            it.close()
        r1 = rows_of(built, list(built.q.evaluate()))
        r2 = rows_of(built, list(built.q.evaluate()))
    finally:
        enable_caching()
    return r1, r2


def _check_flatten(case) -> Outcome:
    from . import c16
    from entity_query_language.cache_data import enable_caching, disable_caching
    fc = case["flat"]
    objs = build_entities(fc["ents"])
    classes = ["family_flatten", "select_" + fc["select"], "cond_" + fc["cond_kind"]]
    res = {}
    with _HitCounter() as hc:
        for caching in (False, True):
            (enable_caching if caching else disable_caching)()
            try:
                q, extract = c16.build(fc, objs)
                res[caching] = [extract(list(q.evaluate())) for _ in range(3)]
            except Exception as e:
                return fail("exception_" + ("cached" if caching else "uncached"), f"flatten query: {type(e).__name__}: {e}",
                            classes=classes, features=classes)
            finally:
                enable_caching()
    nontrivial = hc.hits > 0 and bool(res[False][0])
    for i in range(3):
        for name, x, y in ((f"evaluation {i + 1}: cached vs uncached", res[True][i], res[False][i]),
                           (f"cached: evaluation {i + 1} vs first", res[True][i], res[True][0])):
            bad = compare_sets(y, x, False)      # as sets: repeated identical rows are C16's business
            if bad:
                return fail("cache_" + bad[0], f"flatten query, {name}: {bad[1]}", nontrivial=nontrivial, classes=classes,
                            features=classes, extra={"cache_hits": hc.hits})
    return Outcome(True, nontrivial=nontrivial, classes=classes + (["cache_hit"] if hc.hits else []), features=classes,
                   extra={"cache_hits": hc.hits})


def _check_rule_tree(case) -> Outcome:
    """C12's check runs the tree with caching disabled, then enabled, each against its reference: a failure of the cached
    run (after the uncached run passed) is a difference between the two configurations."""
    from . import c12
    out = c12.check(case["tree"])
    classes = ["family_rule_tree"] + [c for c in out.classes if c.startswith(("shape", "nodes"))][:2]
    if out.ok or "caching_True" not in out.features:
        return Outcome(True, nontrivial=out.nontrivial, classes=classes, features=classes)
    return fail("rule_tree_cached_differs", "rule tree: uncached evaluation agrees with the reference, cached evaluation "
                                            "does not: " + out.detail, nontrivial=out.nontrivial, classes=classes,
                features=classes)


def check(case) -> Outcome:
    if case.get("family") == "flatten":
        return _check_flatten(case)
    if case.get("family") == "rule_tree":
        return _check_rule_tree(case)
    objs = build_entities(case["ents"])
    feats = case_features(case)
    expected, n_sat, n_all = reference_rows(case, objs)
    multiset = all_vars_selected(case)
    classes = [f for f in feats if f in ("join", "self_join", "or_diff_vars", "or_same_vars", "and_right_or", "not",
                                         "pred", "unconstrained_var", "vars2", "vars3")]
    classes.append("multiset" if multiset else "projected")
    if case.get("pre_partial"):
        classes.append("abandoned_evaluation_first")
    try:
        b1, b2 = evaluate_config(case, objs, False)
    except Exception as e:
        return fail("exception_uncached", f"{type(e).__name__}: {e}", classes=classes, features=feats)
    with _HitCounter() as hc:
        try:
            a1, a2 = evaluate_config(case, objs, True)
        except Exception as e:
            return fail("exception_cached", f"{type(e).__name__}: {e}; uncached gave {b1}", classes=classes,
                        features=feats)
    # ---- one and the same query object evaluated while the configuration is switched (off -> on -> off -> on)
    try:
        from entity_query_language.cache_data import enable_caching, disable_caching
        built = build_query(case, objs)
        switched = []
        for caching in (False, True, False, True):
            (enable_caching if caching else disable_caching)()
            switched.append((caching, rows_of(built, list(built.q.evaluate()))))
    except Exception as e:
        return fail("exception_switching", f"{type(e).__name__}: {e}", classes=classes, features=feats)
    finally:
        enable_caching()
    for i, (caching, rows) in enumerate(switched):
        bad = compare_sets(b1, rows, multiset)
        if bad:
            return fail("switch_" + bad[0], f"same query object, evaluation {i + 1} of (off, on, off, on) with caching "
                                            f"{'on' if caching else 'off'}: {bad[1]}", classes=classes, features=feats)
    # ---- the configuration is switched WHILE a result iterator is open (on: one result; off: one result; on again: the
    # rest), then the same query object is evaluated again
    if case.get("toggle_mid_evaluation"):
        classes.append("switched_while_an_iterator_is_open")
        try:
            built = build_query(case, objs)
            it = built.q.evaluate()
            mid = []
            for step_ in range(2):
                (enable_caching if step_ == 0 else disable_caching)()
                r_ = next(it, _END)
                if r_ is _END:
                    break
                mid.append(r_)
            enable_caching()
            mid.extend(it)
            again = rows_of(built, list(built.q.evaluate()))
            mid = rows_of(built, mid)
        except Exception as e:
            return fail("exception_switching", f"switched while an iterator was open: {type(e).__name__}: {e}", classes=classes,
                        features=feats)
        finally:
            enable_caching()
        for label, rows in (("the evaluation during which the configuration was switched", mid),
                            ("the evaluation after it", again)):
            bad = compare_sets(b1, rows, multiset)
            if bad:
                return fail("midswitch_" + bad[0], f"{label}: {bad[1]}", classes=classes,
                            features=feats + ["switched_while_an_iterator_is_open"])
    hits = hc.hits
    nontrivial = hits > 0 and n_sat > 0
    if hits:
        classes.append("cache_hit")
    extra = {"cache_hits": hits}
    for name, x, y in (("first evaluation: cached vs uncached", a1, b1), ("re-evaluation: cached vs uncached", a2, b2),
                       ("cached: first vs re-evaluation", a1, a2)):
        bad = compare_sets(y, x, multiset)
        if bad:
            ref = compare_sets(expected, y, multiset)
            return fail("cache_" + bad[0], f"{name}: {bad[1]} (reference {expected}; the other side "
                                           f"{'agrees' if ref is None else 'disagrees too'})",
                        nontrivial=nontrivial, classes=classes, features=feats, extra=extra)
    bad = compare_sets(expected, a1, multiset)
    if bad:
        return fail("both_" + bad[0], f"cached and uncached agree but differ from the reference: {bad[1]}",
                    nontrivial=nontrivial, classes=classes, features=feats, extra=extra)
    return Outcome(True, nontrivial=nontrivial, classes=classes, features=feats, extra=extra)


def render(case):
    if case.get("family") == "flatten":
        from . import c16
        return {"family": "flatten", **c16.render(case["flat"])}
    if case.get("family") == "rule_tree":
        from . import c12
        return {"family": "rule_tree", **c12.render(case["tree"])}
    return render_query(case)
