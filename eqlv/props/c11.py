"""C11 - rule inference builds one instance per satisfying binding, from that binding.

Generator : rules infer(entity(T(args), body)) built in rule_mode(); T in {Made, Pair} (harness classes with a
            construction counter); args by keyword or positionally; each is a variable, an attribute / index / call
            expression of a variable, or a constant; together they mention every rule variable; the body comes from
            the multi-variable grammar (joins, disjunction, negation, zero-solution bodies) and may or may not constrain
            every variable.
Oracle    : S = satisfying assignments (reference).  The multiset {(type(o), identity of each field)} of the results
            equals {(T, e1(s)..en(s)) | s in S}; results are pairwise distinct new objects with type(o) is T;
            object-valued fields ARE the dataset objects (no copies); the construction counter grew by exactly |S|.
"""
from __future__ import annotations

from collections import Counter

from hypothesis import strategies as st

from .. import ast as A
from ..runner import Outcome, fail, open_features
from ..strategies import Cfg, query_case, Ctx, int_term, ent_term, chance, leaf
from ..world import build_entities, CLASSES, CONSTRUCTED
from ..build import declare_vars, build_infer
from ..qcheck import abandon, satisfying, case_features, render_query, ident

from entity_query_language.symbolic import SymbolicExpression

ID = "C11"
TITLE = "Rule inference builds one instance per satisfying binding, from that binding"
TECHNIQUE = "property-based testing (Hypothesis) against a reference that evaluates the head under each satisfying assignment"
RULE = ("cases = (dataset, 1-2 rule variables, head T(f1=e1..) with keyword or positional arguments that are variables, "
        "attribute/index/call expressions or constants and together mention every variable, body condition tree) drawn by "
        "Hypothesis; the multiset of (class, field identities) of the inferred instances, their freshness, and the "
        "constructor-call count are compared with the reference. Non-trivial = >= 2 satisfying assignments with differing "
        "field values and >= 1 non-satisfying assignment; distinct = canonical JSON.")
BUDGET = {"quick": (8, 400), "thorough": (16, 4000)}
ASSUMPTIONS = ["the head's argument expressions together mention every variable of the rule"]


def _cfg():
    avoid = open_features()
    return Cfg(nvars=(1, 2), pool=(2, 5), dom=(1, 3), max_product=9,
               profile="falsy" if "falsy_values" not in avoid else "clean", max_depth=2, allow_empty_cond=False,
               select="all", desc=("entity",), force_relate=True, noise=False, dom_kinds=("list",),
               allow_nested_not="not_under_not" not in avoid)


@st.composite
def _case(draw, tier):
    cfg = _cfg()
    c = draw(query_case(cfg))
    nv = len(c["vars"])
    ctx = Ctx(cfg, c["ents"], nv)
    if chance(draw, 1, 5):
        # a body variable without a domain, declared in rule mode with a keyword constraint (the repository's own
        # predicate-style rules): its constraint is expanded lazily at the first evaluation
        vd = c["vars"][draw(st.integers(0, nv - 1))]
        f_ = draw(st.sampled_from(["a", "b"]))
        vd.update(decl="registry", in_rule=True, kw=[[f_, c["ents"][draw(st.sampled_from(c["doms"][vd["dom"]]))][f_]]])

    def value_term(v):
        k = draw(st.sampled_from(["var", "var", "int", "ref", "const", "s", "o"]))
        if k == "var":
            return ["var", v]
        if k == "int":
            return int_term(draw, ctx, v)
        if k == "ref":
            return ["attr", ["var", v], "ref"]
        if k == "s":
            return ["attr", ["var", v], "s"]
        if k == "o":
            return ["attr", ["var", v], "o"]
        return ["const", draw(st.sampled_from([0, 1, 5, "", "c"]))]

    if nv == 1:
        args = [["src", draw(st.sampled_from([["var", 0], ["var", 0], int_term(draw, ctx, 0), ["attr", ["var", 0], "ref"]]))],
                ["val", value_term(0)]]
        if chance(draw, 1, 3):
            args.append(["extra", value_term(0)])
        if not any(A.term_vars(t) for _, t in args):
            args[0][1] = ["var", 0]
        head = {"cls": draw(st.sampled_from(["Made", "Made", "MadeKw", "MadeEmpty"])), "args": args}
    else:
        left = draw(st.sampled_from([["var", 0], ["var", 0], int_term(draw, ctx, 0)]))
        right = draw(st.sampled_from([["var", 1], ["var", 1], int_term(draw, ctx, 1)]))
        args = [["left", left], ["right", right]]
        if chance(draw, 2, 3):
            args.append(["tag", value_term(draw(st.integers(0, 1)))])
        head = {"cls": "Pair", "args": args}
    if nv == 2 and chance(draw, 1, 5):
        # a sub-query as a constructor argument: Pair(left=x, right=an(entity(y, c(x, y) | c'(y))))
        sc = ["or", "nary", [leaf(draw, ctx, draw(st.sampled_from([[0, 1], [1]]))), leaf(draw, ctx, [1])]]
        if draw(st.booleans()):
            sc = leaf(draw, ctx, draw(st.sampled_from([[0, 1], [1]])))
        head["args"][1][1] = ["subq", 1, sc]
    elif chance(draw, 1, 5):
        # a nested sub-query among the conditions of the rule body, with a disjunction of its own
        v = draw(st.integers(0, nv - 1))
        sc = ["or", "nary", [leaf(draw, ctx, [v] if nv == 1 else draw(st.sampled_from([[0, 1], [v]]))), leaf(draw, ctx, [v])]]
        c["cond"] = ["and", "nary", [c["cond"], ["sub", "entity", [v], sc]]]
    if chance(draw, 1, 6):
        # s = x.s is a bare condition of the body AND stands beneath another expression in the head (one shared object)
        v = draw(st.integers(0, nv - 1))
        T_ = ["attr", ["var", v], "s"]
        c["cond"] = ["and", "nary", [["truth", T_], c["cond"]] if draw(st.booleans()) else [c["cond"], ["truth", T_]]]
        nested = ["call", T_, "startswith", [draw(st.sampled_from(["x", "y"]))]]
        slot = "tag" if head["cls"] == "Pair" else "val"      # (never the argument that carries a variable of its own)
        for a_ in head["args"]:
            if a_[0] == slot:
                a_[1] = nested
                break
        else:
            head["args"].append([slot, nested])
        c["share_terms"] = True
    head["positional"] = draw(st.booleans())
    c["head"] = head
    c["infer_style"] = draw(st.sampled_from(["infer_entity", "infer_direct", "an_in_rule_mode"]))
    c["quant"] = "infer"
    return c


def strategy(tier):
    return _case(tier)


def check(case) -> Outcome:
    objs = build_entities(case["ents"])
    feats = case_features(case)
    head = case["head"]
    cls = CLASSES[head["cls"]]
    # a sub-query among the constructor arguments restricts that argument to its solutions: for the reference its
    # condition is one more condition of the rule
    subq_conds = [t[2] for _, t in head["args"] if t[0] == "subq"]
    ref_case = case if not subq_conds else dict(case, cond=["and", "nary", [case["cond"]] + subq_conds])
    sat = satisfying(ref_case, objs)
    n_all = 1
    from ..qcheck import var_domains
    for d in var_domains(case, objs):
        n_all *= len(d)
    expected = Counter()
    distinct_fields = set()
    for a in sat:
        env = dict(enumerate(a))
        key = ident(tuple(A.eval_term(t, env) for _, t in head["args"]))
        expected[key] += 1
        distinct_fields.add(key)
    nontrivial = len(sat) >= 2 and len(distinct_fields) >= 2 and len(sat) < n_all
    unconstrained = len(A.cond_vars(case["cond"])) < len(case["vars"])
    classes = [head["cls"], "positional" if head.get("positional") else "keyword", case["infer_style"],
               "body_binds_all_vars" if not unconstrained else "head_var_not_in_body"]
    classes += [f for f in feats if f in ("join", "or_diff_vars", "not", "pred")]
    if any(t[0] == "const" for _, t in head["args"]):
        classes.append("const_arg")
    if any(t[0] not in ("var", "const") for _, t in head["args"]):
        classes.append("expression_arg")
    if subq_conds:
        classes.append("subquery_arg")
    if A.has_kind(case["cond"], "sub"):
        classes.append("subquery_in_body")
    if unconstrained:
        feats.append("head_var_not_in_body")
    def _judge(res, built, earlier, attempt):
        label = f"evaluation {attempt}: "
        got = Counter()
        for o in res:
            if isinstance(o, SymbolicExpression) or type(o) is not cls:
                return fail("not_an_instance", label + f"result {o!r} of type {type(o).__name__} is not a real {cls.__name__}",
                            nontrivial=nontrivial, classes=classes, features=feats)
            got[ident(tuple(getattr(o, k) for k, _ in head["args"]))] += 1
        if len({id(o) for o in res}) != len(res):
            return fail("instance_returned_twice", label + f"the same inferred object occurs twice among {res}",
                        nontrivial=nontrivial, classes=classes, features=feats)
        if any(o is x for o in res for x in objs):
            return fail("existing_object_returned", label + "a dataset object was returned as an inferred instance",
                        nontrivial=nontrivial, classes=classes, features=feats)
        if any(o is x for o in res for x in earlier):
            return fail("instance_reused_across_evaluations", label + "an instance built by the previous evaluation was "
                        "returned again instead of a new one", nontrivial=nontrivial, classes=classes, features=feats)
        if got != expected:
            missing, extra = expected - got, got - expected
            kind = "missing_instances" if missing and not extra else ("extra_instances" if extra and not missing else
                                                                      "wrong_fields")
            if attempt > 1:
                kind = "reevaluation_" + kind
            return fail(kind, label + f"head {head['cls']}({', '.join(k + '=' + A.r_term(t) for k, t in head['args'])}): "
                              f"expected {len(sat)} instance(s) with fields {sorted(map(repr, expected.elements()))}, "
                              f"got {res}", nontrivial=nontrivial, classes=classes, features=feats)
        if built != len(sat):
            return fail("constructor_calls", label + f"{built} constructor call(s) for {len(sat)} satisfying assignment(s)",
                        nontrivial=nontrivial, classes=classes, features=feats)
        return None

    V, conts = declare_vars(case, objs)
    try:
        q = build_infer(V, head, case["cond"], case["infer_style"], case.get("split_top"))
    except Exception as e:
        return fail("exception", f"building: {type(e).__name__}: {e}", nontrivial=nontrivial, classes=classes, features=feats)
    if case.get("later_uses"):
        from ..build import later_uses
        kept = later_uses(V)
        classes.append("terms_mentioned_again_in_expressions_built_later")
    try:
        abandon(q, case.get("abandon_first", 0))       # an evaluation given up after a few instances comes first
    except Exception as e:
        return fail("exception", f"abandoned evaluation: {type(e).__name__}: {e}", nontrivial=nontrivial, classes=classes,
                    features=feats)
    if case.get("abandon_first"):
        classes.append("after_abandoned_evaluation")
    if any(v.get("decl") == "registry" for v in case["vars"]):
        classes.append("registry_variable_with_keyword_constraint")
    earlier = []
    # the same rule object is evaluated three times: EVERY evaluation constructs one new instance per satisfying assignment
    for attempt in (1, 2, 3):
        before = CONSTRUCTED[head["cls"]]
        try:
            res = list(q.evaluate())
        except Exception as e:
            return fail("exception", f"evaluation {attempt}: {type(e).__name__}: {e}; expected {len(sat)} instance(s)",
                        nontrivial=nontrivial, classes=classes, features=feats)
        built = CONSTRUCTED[head["cls"]] - before
        bad = _judge(res, built, earlier, attempt)
        if bad is not None:
            return bad
        earlier.extend(res)
    return Outcome(True, nontrivial=nontrivial, classes=classes, features=feats)


def render(case):
    r = render_query(case)
    h = case["head"]
    r["head"] = f"{h['cls']}({', '.join(k + '=' + A.r_term(t) for k, t in h['args'])})" + (" [positional]" if h.get("positional") else "")
    r["style"] = case["infer_style"]
    del r["select"]
    return r
