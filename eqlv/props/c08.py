"""C08 - symbolic mode is confined to its block.

Generator : a SCHEDULE (op list interpreted by a step function, the harness owns every interleaving): enter
            symbolic_mode() / rule_mode() / symbolic_mode(q) / rule_mode(q) / `with q:` (explicit __enter__); leave the
            innermost block normally or by an exception thrown through 1..n enclosing blocks (exactly the __exit__ calls a
            `with` statement makes); create a result iterator from a pool of prepared queries; advance it; drain it;
            close() it; drop the last reference (+ gc); evaluate the(...) queries that return / raise NoSolutionFound /
            raise MultipleSolutionFound; advance an iterator whose user predicate raises.  Iterators live across block
            boundaries.  <= 25 steps.
Oracle    : a stack model.  mode = mode of the topmost mode frame (or None); context = object pushed by the topmost
            query frame.  After EVERY step: in_symbolic_mode(), in_symbolic_mode(Rule), in_symbolic_mode(Query), the
            expression-context depth and top element equal the model, and behavioural probes agree with the model's mode:
            outside, Sym(..) is a real registered instance, a @predicate function returns its Python value and
            x.a, x[0], x(), x == 1, x != 1, x < 1, x <= 1, x > 1, x >= 1 raise AttributeError; inside, each builds a
            symbolic expression.  Every iterator yields exactly the reference results in order, wherever it is advanced.
"""
from __future__ import annotations

import gc
import threading

from hypothesis import strategies as st

from .. import ast as A
from ..runner import Outcome, fail
from ..world import build_entities, Ent, Other, p_a_ge, p_echo, CLASSES, FAULT, InjectedFault
from ..build import build_query
from ..qcheck import satisfying

from entity_query_language import symbolic_mode, rule_mode, let
from entity_query_language.symbolic import (in_symbolic_mode, SymbolicExpression, _set_symbolic_mode)
from entity_query_language.enums import EQLMode

ID = "C08"
TITLE = "Symbolic mode is confined to its block"
TECHNIQUE = "model-based (schedule) property testing with Hypothesis: op sequences vs a stack model, probed after every step"
RULE = ("cases = schedules of <=25 ops over {enter query-mode / rule-mode / mode-with-query / with-query block, leave, "
        "raise through n blocks, create / advance / drain / close / drop a result iterator, run the probes in a second thread "
        "that is started and joined inside the step} drawn by Hypothesis; after every "
        "op the mode queries, the expression context and behavioural probes are compared with a stack model. Non-trivial "
        "= an iterator is suspended across a block boundary (created or advanced on one side of a block entry/exit and "
        "advanced or finalised on the other), an exception unwinds >= 2 frames, or a second thread is probed while this one is "
        "inside a block; distinct = canonical JSON.")
BUDGET = {"quick": (4, 300), "thorough": (16, 1200)}
ASSUMPTIONS = ["the schedules are the interleavings of block entry/exit and iterator life-cycle, all owned by the harness; a "
               "second thread only ever runs while the first waits for it (started and joined inside one step)", "the bitwise operators &, |, ~ outside a block are not in the guarded set and are not probed"]

_V = ["var", 0]
THE = {"one": ["cmp", "==", ["attr", _V, "k"], ["const", 2]], "none": ["cpred", "IsBig", [["attr", _V, "ref"]]],
       "multi": ["fpred", "p_a_ge", [_V, ["const", 2]]]}     # over DATA: exactly one / no / three solutions
POOL = [
    ["cmp", ">=", ["attr", _V, "a"], ["const", 2]],
    ["fpred", "p_a_ge", [_V, ["const", 2]]],
    ["and", "nary", [["cpred", "IsBig", [_V]], ["cmp", "!=", ["attr", _V, "b"], ["const", 9]]]],
    ["or", "nary", [["cmp", "==", ["attr", _V, "a"], ["const", 1]], ["truth", ["call", _V, "is_big", []]]]],
    None,                                              # a query without any condition: an(entity(x))
    ["fpred", "p_flaky", [_V, ["const", 1]]],          # user code that can be made to raise (fault injection)
]
DATA = [{"cls": c, "k": i + 1, "a": a, "b": b, "s": "x", "tags": [1], "o": 1, "ref": 0, "kids": [0],
         "d": {"p": 1, "q": 2}} for i, (c, a, b) in enumerate([("Ent", 1, 2), ("EntSub", 2, 1), ("Ent", 3, 3), ("EntPlain", 2, 2)])]

ENTER_KINDS = ["sym", "rule", "sym_q", "rule_q", "with_q"]


@st.composite
def _schedule(draw, tier):
    ops = []
    for _ in range(draw(st.integers(3, 25))):
        k = draw(st.sampled_from(["enter", "enter", "leave", "leave", "raise", "new", "new", "next", "next", "next",
                                  "drain", "close", "drop", "the", "the", "next_raise", "thread"]))
        if k == "enter":
            ops.append(["enter", draw(st.sampled_from(ENTER_KINDS)), draw(st.integers(0, len(POOL) - 1))])
        elif k == "raise":
            ops.append(["raise", draw(st.integers(1, 3))])
        elif k == "new":
            ops.append(["new", draw(st.integers(0, len(POOL) - 1))])
        elif k in ("next", "drain", "close", "drop", "next_raise"):
            ops.append([k, draw(st.integers(0, 5))])
        elif k == "the":
            ops.append(["the", draw(st.sampled_from(["one", "none", "multi"]))])
        elif k == "thread":
            ops.append(["thread", draw(st.sampled_from(["probe", "probe", "sym", "rule"]))])
        else:
            ops.append([k])
    return {"ops": ops}


def strategy(tier):
    return _schedule(tier)


class _Boom(Exception):
    pass


def _case_for(cond):
    return {"ents": DATA, "doms": [[0, 1, 2, 3]], "vars": [{"dom": 0, "decl": "let", "type": "Ent"}], "cond": cond,
            "dom_kind": "list", "split_top": False, "quant": "an", "sel": [_V], "desc": "entity"}


def _probe(model_mode, probe_var):
    """Behavioural probes; returns an error string or None."""
    inside = model_mode is not None
    # 1. constructing a @symbol class
    obj = Other(k=7, a=1)
    if inside:
        if not isinstance(obj, SymbolicExpression):
            return f"inside a block Other(k=7, a=1) built a real instance {obj!r}"
    else:
        if type(obj) is not Other:
            return f"outside every block Other(k=7, a=1) returned {type(obj).__name__}, not a real instance"
    # 2. calling a @predicate function
    e = _probe.ent
    r = p_a_ge(e, 1)
    if inside:
        if not isinstance(r, SymbolicExpression):
            return f"inside a block the @predicate function returned the Python value {r!r}"
    else:
        if r is not True:
            return f"outside every block the @predicate function returned {r!r} instead of True"
    # 2b. ... also when an argument happens to be an expression object (a variable declared earlier, a query): outside
    # every block the call is ordinary Python, the body runs with exactly these arguments
    for args, kwargs in (((probe_var,), {}), ((1,), {"w": probe_var}), ((_probe.query,), {})):
        r = p_echo(*args, **kwargs)
        if inside:
            if not isinstance(r, SymbolicExpression):
                return f"inside a block p_echo(<expression>) returned the Python value {r!r}"
        else:
            want = ("ran", args[0], kwargs.get("w"))
            if not (isinstance(r, tuple) and len(r) == 3 and r[0] == "ran" and r[1] is want[1] and r[2] is want[2]):
                return (f"outside every block the @predicate function called with an expression object as an argument "
                        f"did not run as ordinary Python: returned {type(r).__name__}")
    # 3. symbolic operators on a variable
    ops = {"x.a": lambda x: x.a, "x[0]": lambda x: x[0], "x()": lambda x: x(), "x == 1": lambda x: x == 1,
           "x != 1": lambda x: x != 1, "x < 1": lambda x: x < 1, "x <= 1": lambda x: x <= 1, "x > 1": lambda x: x > 1,
           "x >= 1": lambda x: x >= 1}
    for name, fn in ops.items():
        try:
            v = fn(probe_var)
            if not inside:
                return f"outside every block `{name}` on a variable was accepted (returned {type(v).__name__})"
            if not isinstance(v, SymbolicExpression):
                return f"inside a block `{name}` returned {v!r}, not an expression"
        except AttributeError as ex:
            if inside:
                return f"inside a block `{name}` was rejected: {ex}"
    return None


def check(case) -> Outcome:
    objs = build_entities(DATA)
    _probe.ent = objs[1]
    queries, expected = [], []
    for cond in POOL:
        c = _case_for(cond)
        queries.append(build_query(c, objs).q)
        expected.append([a[0] for a in satisfying(c, objs)])
    from entity_query_language import MultipleSolutionFound, NoSolutionFound
    the_queries = {name: build_query(_case_for(cond), objs, quant="the").q for name, cond in THE.items()}
    FAULT.update(armed=False, calls=0, at=0)
    probe_var = let(Ent, domain=[objs[0]])
    _probe.query = queries[0]
    frames = []          # model: dicts(kind, cm, mode, ctx(bool), top)
    iters = []           # dicts(gen, qi, pos, epoch_created, alive)
    epoch = 0            # incremented at every block entry / exit
    nontrivial = False
    classes = set()

    def model_mode():
        for f in reversed(frames):
            if f["mode"] is not None:
                return f["mode"]
        return None

    def compare(step, op):
        m = model_mode()
        got = (in_symbolic_mode(), in_symbolic_mode(EQLMode.Rule), in_symbolic_mode(EQLMode.Query))
        want = (m is not None, m == EQLMode.Rule, m == EQLMode.Query)
        if got != want:
            return fail("mode_mismatch", f"after step {step} {op}: (in_symbolic_mode, rule, query) = {got}, the blocks "
                                         f"that are open say {want}; open frames {[f['kind'] for f in frames]}")
        depth = sum(1 for f in frames if f["ctx"])
        stack = SymbolicExpression._symbolic_expression_stack_
        if len(stack) != depth:
            return fail("context_depth_mismatch", f"after step {step} {op}: expression context depth {len(stack)}, "
                                                  f"expected {depth}")
        tops = [f["top"] for f in frames if f["ctx"]]
        cur = SymbolicExpression._current_parent_()
        if (tops[-1] if tops else None) is not cur:
            return fail("context_top_mismatch", f"after step {step} {op}: current expression context is {cur!r}, expected "
                                                f"{tops[-1] if tops else None!r}")
        bad = _probe(m, probe_var)
        if bad:
            return fail("behaviour_mismatch", f"after step {step} {op} (open frames {[f['kind'] for f in frames]}): {bad}")
        return None

    def pop_frame(exc=None):
        f = frames.pop()
        if exc is None:
            f["cm"].__exit__(None, None, None)
        else:
            try:
                f["cm"].__exit__(type(exc), exc, None)
            except _Boom:
                pass

    def touch(it):
        nonlocal nontrivial
        if it["epoch"] != epoch:
            nontrivial = True
            classes.add("iterator_across_block_boundary")
        it["epoch"] = epoch

    try:
        bad = compare(-1, "start")
        if bad:
            return bad
        for step, op in enumerate(case["ops"]):
            k = op[0]
            if k == "enter":
                kind, qi = op[1], op[2]
                q = queries[qi]
                if kind == "sym":
                    cm, mode, ctx = symbolic_mode(), EQLMode.Query, False
                elif kind == "rule":
                    cm, mode, ctx = rule_mode(), EQLMode.Rule, False
                elif kind == "sym_q":
                    cm, mode, ctx = symbolic_mode(q), EQLMode.Query, True
                elif kind == "rule_q":
                    cm, mode, ctx = rule_mode(q), EQLMode.Rule, True
                else:
                    cm, mode, ctx = q, None, True
                try:
                    cm.__enter__()
                except Exception as e:
                    # a block that refuses to be entered was not entered: whatever was open before is still open, exactly
                    # as it was (checked below like after every step)
                    classes.add("enter_refused_" + type(e).__name__)
                    bad = compare(step, op)
                    if bad:
                        bad.classes = sorted(classes)
                        bad.nontrivial = nontrivial
                        return bad
                    continue
                top = SymbolicExpression._current_parent_() if ctx else None
                frames.append({"kind": kind, "cm": cm, "mode": mode, "ctx": ctx, "top": top})
                epoch += 1
                classes.add("enter_" + kind)
                if len(frames) >= 2:
                    classes.add("nested")
            elif k == "leave":
                if not frames:
                    continue
                pop_frame()
                epoch += 1
            elif k == "raise":
                n = min(op[1], len(frames))
                if n == 0:
                    continue
                exc = _Boom("boom")
                for _ in range(n):
                    pop_frame(exc)
                epoch += 1
                classes.add("exception_exit")
                if n >= 2:
                    nontrivial = True
                    classes.add("exception_through_2plus")
            elif k == "new":
                iters.append({"gen": queries[op[1]].evaluate(), "qi": op[1], "pos": 0, "epoch": epoch, "alive": True})
            elif k == "thread":
                # another flow of control that never entered a block is outside every block, whatever this one has open;
                # a block it opens and leaves itself is its own.  The thread is started and joined here: the harness owns
                # the schedule.
                box = {}

                def work(kind=op[1]):
                    try:
                        box["first"] = _probe(None, probe_var)
                        if kind != "probe":
                            with (symbolic_mode() if kind == "sym" else rule_mode()):
                                box["inside"] = _probe(EQLMode.Query if kind == "sym" else EQLMode.Rule, probe_var)
                            box["after"] = _probe(None, probe_var)
                    except Exception as e:          # reported below, never swallowed
                        box["error"] = f"{type(e).__name__}: {e}"
                th = threading.Thread(target=work)
                th.start()
                th.join()
                bad_ = box.get("error") or box.get("first") or box.get("inside") or box.get("after")
                if bad_:
                    return fail("behaviour_mismatch_other_thread",
                                f"step {step} {op}: in a thread that entered no block of its own (this flow has open frames "
                                f"{[f['kind'] for f in frames]}): {bad_}", classes=sorted(classes), nontrivial=nontrivial)
                classes.add("other_thread_while_inside" if model_mode() is not None else "other_thread_while_outside")
                if model_mode() is not None:
                    nontrivial = True
            elif k == "the":
                # evaluating the(...) here, inside whatever blocks are open; it may raise by contract
                try:
                    r = the_queries[op[1]].evaluate()
                    got = "value" if r is objs[1] else f"wrong value {r!r}"
                except MultipleSolutionFound:
                    got = "multi"
                except NoSolutionFound:
                    got = "none"
                except Exception as e:
                    got = f"{type(e).__name__}: {e}"
                want_ = {"one": "value", "none": "none", "multi": "multi"}[op[1]]
                if got != want_:
                    return fail("the_outcome", f"step {step} {op}: the(...) evaluated with open frames "
                                               f"{[f['kind'] for f in frames]} gave {got}, expected {want_}")
                classes.add("the_" + op[1] + ("_inside" if frames else "_outside"))
                if frames and op[1] != "one":
                    nontrivial = True
            elif k == "next_raise":
                live = [it for it in iters if it["alive"] and it["qi"] == len(POOL) - 1]
                if not live:
                    continue
                it = live[op[1] % len(live)]
                touch(it)
                FAULT.update(armed=True, calls=0, at=1)      # the user predicate raises at its next call
                try:
                    next(it["gen"])
                except InjectedFault:
                    classes.add("user_code_raised_inside" if frames else "user_code_raised_outside")
                    if frames:
                        nontrivial = True
                except StopIteration:
                    pass
                finally:
                    FAULT.update(armed=False, calls=0, at=0)
                it["alive"] = False
            elif k in ("next", "drain", "close", "drop"):
                live = [it for it in iters if it["alive"]]
                if not live:
                    continue
                it = live[op[1] % len(live)]
                # the same query must not have two iterators advanced alternately (C04 excludes interleaved consumers)
                if any(o is not it and o["alive"] and o["qi"] == it["qi"] and o["pos"] > 0 for o in iters) and k in ("next", "drain"):
                    continue
                touch(it)
                want = expected[it["qi"]]
                if k == "next" or k == "drain":
                    while True:
                        try:
                            r = next(it["gen"])
                        except StopIteration:
                            it["alive"] = False
                            if it["pos"] != len(want):
                                return fail("iterator_result", f"step {step} {op}: iterator over q{it['qi']} ended after "
                                                               f"{it['pos']} results, expected {want}")
                            break
                        except Exception as e:
                            return fail("iterator_exception", f"step {step} {op}: advancing the iterator over "
                                                              f"q{it['qi']} raised {type(e).__name__}: {e} (open frames "
                                                              f"{[f['kind'] for f in frames]})")
                        if it["pos"] >= len(want) or r is not want[it["pos"]]:
                            return fail("iterator_result", f"step {step} {op}: iterator over q{it['qi']} yielded {r!r} at "
                                                           f"position {it['pos']}, expected sequence {want} (open frames "
                                                           f"{[f['kind'] for f in frames]})")
                        it["pos"] += 1
                        if k == "next":
                            break
                    classes.add("advance_inside" if frames else "advance_outside")
                elif k == "close":
                    it["gen"].close()
                    it["alive"] = False
                    classes.add("close")
                else:
                    it["gen"] = None
                    it["alive"] = False
                    gc.collect()
                    classes.add("drop")
            bad = compare(step, op)
            if bad:
                bad.classes = sorted(classes)
                bad.nontrivial = nontrivial
                return bad
        # unwind what is still open, finalise what is still alive, and compare once more
        while frames:
            pop_frame()
            epoch += 1
        for it in iters:
            if it["alive"]:
                touch(it)
                it["gen"].close()
                it["alive"] = False
        bad = compare(len(case["ops"]), "teardown")
        if bad:
            bad.classes = sorted(classes)
            bad.nontrivial = nontrivial
            return bad
    finally:
        # never let a failing case poison the next one
        for f in reversed(frames):
            try:
                f["cm"].__exit__(None, None, None)
            except Exception:
                pass
        for it in iters:
            if it.get("gen") is not None:
                try:
                    it["gen"].close()
                except Exception:
                    pass
        _set_symbolic_mode(None)
        del SymbolicExpression._symbolic_expression_stack_[:]
        FAULT.update(armed=False, calls=0, at=0)
    return Outcome(True, nontrivial=nontrivial, classes=sorted(classes))


def render(case):
    return {"pool": [A.r_cond(c) if c is not None else "(no condition)" for c in POOL], "schedule": case["ops"]}
