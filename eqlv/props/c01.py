"""C01 - a single-variable query is an exact, ordered, duplicate-free domain filter.

Generator : one variable over a domain of 0-6 distinct objects (mixed subclasses, optional non-Ent noise that
            the type filter must drop), declared with let(...) or T(From(...)), list / tuple / generator domain;
            condition = AST of depth <= 3 over the whole public condition vocabulary.
Oracle    : [o for o in domain if eval_py(cond, o)]  compared with list(query.evaluate()) AS LISTS BY IDENTITY.
"""
from __future__ import annotations

import itertools

from hypothesis import strategies as st

from .. import ast as A
from ..runner import Outcome, fail, open_features
from ..strategies import Cfg, query_case
from ..world import build_entities, enc
from ..build import build_query
from ..qcheck import var_domains, satisfying, compare_lists, case_features, abandon, ambient

ID = "C01"
TITLE = "A single-variable query is an exact, ordered, duplicate-free domain filter"
TECHNIQUE = "property-based testing (Hypothesis) against a Python-semantics reference evaluator + exhaustive small trees"
RULE = ("cases = (dataset, domain, condition tree) drawn by Hypothesis from the public condition vocabulary, plus an "
        "exhaustive slice of all trees with <=2 (quick) / <=3 (thorough) leaves over a fixed leaf pool on fixed datasets; "
        "the returned list is compared by identity and order with the Python list comprehension. Non-trivial = the "
        "expected result is a non-empty proper sub-list of the domain and the condition has a connective or a "
        "mapping (attribute chain / index / call); distinct = distinct canonical JSON of the case.")
BUDGET = {"quick": (4, 500), "thorough": (16, 6000)}
FUZZ = (8, 2500)     # coverage-guided tier (thorough): processes, libFuzzer runs per process
EXHAUSTIVE_NOTE = {"quick": "all and/or trees with <=2 leaves (each leaf plain or negated, optional root not) over "
                            "8 leaf kinds x 3 datasets",
                   "thorough": "all and/or trees with <=3 leaves (each leaf plain or negated, optional root not) over "
                               "8 leaf kinds x 4 datasets"}
ASSUMPTIONS = ["domain objects are distinct", "conditions never raise under Python semantics on the generated data "
               "(by construction)", "entities compare by identity (eq=False)"]


def _cfg(tier):
    avoid = open_features()
    return Cfg(nvars=(1, 1), pool=(1, 6), dom=(0, 6), profile="falsy" if "falsy_values" not in avoid else "clean",
               max_depth=3, allow_nested_not="not_under_not" not in avoid,
               allow_empty_cond=True, select="first", desc=("entity",), avoid=frozenset(avoid), empty_dom=(1, 5))


def strategy(tier):
    return query_case(_cfg(tier))


# ---- exhaustive slice ---------------------------------------------------------------------------

_V = ["var", 0]
LEAF_POOL = [
    ["cmp", ">=", ["attr", _V, "a"], ["const", 2]],
    ["cmp", "<", ["const", 1], ["attr", _V, "b"]],
    ["cmp", "==", ["attr", ["attr", _V, "ref"], "a"], ["attr", _V, "b"]],
    ["in", "in_", ["const", 2], ["attr", _V, "tags"]],
    ["truth", ["call", _V, "is_big", []]],
    ["cmp", "!=", ["attr", _V, "ref"], _V],
    ["in", "contains", ["const", "x"], ["attr", _V, "s"]],
    ["cmp", "<=", ["idx", ["attr", _V, "tags"], 0], ["attr", _V, "a"]],
]


def _datasets():
    def ds(rows):
        return [{"cls": c, "k": i + 1, "a": a, "b": b, "s": s, "tags": t, "o": 1, "ref": r, "kids": [0],
                 "d": {"p": 1, "q": 2}} for i, (c, a, b, s, t, r) in enumerate(rows)]
    return [
        ds([("Ent", 1, 2, "x", [2], 1), ("EntSub", 2, 1, "y", [1, 2], 1), ("Ent", 3, 3, "xy", [3], 0),
            ("EntPlain", 2, 2, "y", [1], 3)]),
        ds([("Ent", 3, 1, "y", [3, 2], 0), ("Ent", 1, 1, "x", [1], 2), ("EntSub", 2, 3, "xy", [2], 2),
            ("Ent", 1, 3, "y", [2, 2], 0)]),
        ds([("EntPlain", 2, 2, "xy", [2], 0), ("Ent", 2, 1, "y", [1], 0), ("Ent", 1, 2, "x", [3], 1),
            ("Ent", 3, 2, "x", [1, 1], 2)]),
        ds([("Ent", 1, 1, "y", [1], 0), ("Ent", 3, 3, "x", [2], 1), ("Ent", 2, 2, "x", [2, 3], 3),
            ("EntSub", 1, 2, "xy", [3], 3)]),
    ]


def _trees(max_leaves):
    lits = []
    for l in LEAF_POOL:
        lits.append(l)
        lits.append(["not", "not_", l])
    for l in lits:
        yield l
    if max_leaves >= 2:
        for a, b in itertools.product(lits, repeat=2):
            for op in ("and", "or"):
                t = [op, "nary", [a, b]]
                yield t
                yield ["not", "not_", t]
    if max_leaves >= 3:
        plain = LEAF_POOL
        for a, b, c in itertools.product(plain, repeat=3):
            for op1 in ("and", "or"):
                for op2 in ("and", "or"):
                    yield [op1, "nary", [a, [op2, "nary", [b, c]]]]
                    yield [op1, "nary", [[op2, "nary", [a, b]], c]]
                    yield ["not", "not_", [op1, "nary", [a, [op2, "nary", [b, c]]]]]


def exhaustive(tier, shard, nshards):
    avoid = open_features()
    datasets = _datasets()[:3 if tier == "quick" else 4]
    i = 0
    for t in _trees(2 if tier == "quick" else 3):
        if "not_under_not" in avoid and A.not_under_not(t):
            continue
        i += 1
        if i % nshards != shard:
            continue
        for ds in datasets:
            yield {"ents": ds, "doms": [[0, 1, 2, 3]], "vars": [{"dom": 0, "decl": "let", "type": "Ent"}],
                   "cond": t, "dom_kind": "list", "split_top": False, "quant": "an", "sel": [["var", 0]],
                   "desc": "entity"}


# ---- the check -------------------------------------------------------------------------------------

def check(case) -> Outcome:
    objs = build_entities(case["ents"])
    feats = case_features(case)
    expected = [(a[0],) for a in satisfying(case, objs)]
    dom = var_domains(case, objs)[0]
    cond = case.get("cond")
    nontrivial = (cond is not None and 0 < len(expected) < len(dom)
                  and (A.has_kind(cond, "and", "or", "not") or any(A.term_has_mapping(t) for t in A.terms_of(cond))
                       or A.has_kind(cond, "truth")))
    classes = [f for f in feats if f in ("and", "or", "not", "not_over_and", "not_over_or", "or_same_vars", "pred",
                                         "truth", "membership", "chained", "idx", "call", "literal_left",
                                         "generator_domain", "mixed_types", "no_cond", "empty_domain",
                                         "not_under_not", "shared_term_objects")]
    classes.append("decl_" + case["vars"][0]["decl"])
    try:
        built = build_query(case, objs)
    except Exception as e:
        return fail("exception", f"building: {type(e).__name__}: {e}; expected {expected}", nontrivial=nontrivial,
                    classes=classes, features=feats)
    # "iterating the result" holds for every iteration: the same query object is evaluated three times, possibly after
    # an iteration that the consumer gave up after a few results
    try:
        with ambient(case):
            abandon(built.q, case.get("abandon_first", 0))
    except Exception as e:
        return fail("exception", f"abandoned evaluation: {type(e).__name__}: {e}", nontrivial=nontrivial,
                    classes=classes, features=feats)
    if case.get("abandon_first"):
        classes.append("after_abandoned_evaluation")
    if case.get("consume_in"):
        classes.append("results_requested_inside_" + case["consume_in"] + "_block")
    for attempt in (1, 2, 3):
        try:
            with ambient(case):
                got = [(r,) for r in built.q.evaluate()]
        except Exception as e:
            return fail("exception", f"evaluation {attempt}: {type(e).__name__}: {e}; expected {expected}",
                        nontrivial=nontrivial, classes=classes, features=feats)
        bad = compare_lists(expected, got)
        if bad:
            return fail(bad[0] if attempt == 1 else "reevaluation_" + bad[0], f"evaluation {attempt}: {bad[1]}",
                        nontrivial=nontrivial, classes=classes, features=feats)
    return Outcome(True, nontrivial=nontrivial, classes=classes, features=feats)


def render(case):
    return {"domain": [f"{r['cls']}(k={r['k']},a={r.get('a')},b={r.get('b')},s={r.get('s')!r},tags={r.get('tags')},ref=#{r.get('ref', 0) + 1})"
                       for i, r in enumerate(case["ents"]) if i in case["doms"][0]],
            "decl": case["vars"][0]["decl"], "dom_kind": case["dom_kind"],
            "cond": A.r_cond(case["cond"]) if case.get("cond") is not None else None,
            **({"results_requested_inside": case["consume_in"] + " block"} if case.get("consume_in") else {})}
