"""C12 - a rule tree selects, per match, the conclusion ripple-down rules prescribe.

Generator : binary RDR trees: node = (condition, conclusion, optional REFINEMENT child, optional ALTERNATIVE child), up to
            3 levels / 7 nodes; 1- and 2-variable rules; the base condition binds every rule variable (comparison, join,
            conjunction); branch conditions range over the base's variables; node i concludes Add(views, Tag_i(x, y)) with a
            node-specific class, so the output says which branch fired.  Built with the public API exactly as the docs do
            (with rule_mode(query): Add(..); with refinement(c): ..; with alternative(c): ..), both declaration orders of a
            node's refinement and alternative blocks, alternative chains spelled nested or as siblings.
Oracle    : fire(node, s) = (fire(ref, s) or node.tag) if cond(s) else fire(alt, s); expected multiset
            {(fire(root, s), s) | fire(root, s) is not None} vs the multiset of (class, fields) produced.  Run with caching
            enabled and disabled.
"""
from __future__ import annotations

import itertools
from collections import Counter

from hypothesis import strategies as st

from .. import ast as A
from ..runner import Outcome, fail, open_features
from ..strategies import Cfg, Ctx, draw_dataset, leaf, chance
from ..world import build_entities, TAGS, Tag, CLASSES
from ..build import declare_vars, build_cond
from ..qcheck import var_domains, ident

from entity_query_language import an, entity, let, symbolic_mode, rule_mode, refinement, alternative, Add, infer
from entity_query_language.symbolic import Variable

ID = "C12"
TITLE = "A rule tree selects, per match, the conclusion ripple-down rules prescribe"
TECHNIQUE = "property-based testing (Hypothesis) + exhaustive small tree shapes, against a recursive ripple-down-rules interpreter"
RULE = ("cases = (dataset, 1-2 rule variables, RDR tree of <= 7 nodes with per-node conditions and tagged conclusions, "
        "declaration order / chain spelling, caching on|off) drawn by Hypothesis, plus all tree shapes up to 4 nodes over a "
        "condition pool on fixed datasets; the multiset of (tag class, fields) is compared with the RDR interpreter. "
        "Non-trivial = >= 2 different tags occur in the expected output and one of them comes from a refinement or an "
        "alternative; distinct = canonical JSON.")
BUDGET = {"quick": (8, 700), "thorough": (16, 5000)}
EXHAUSTIVE_NOTE = {"quick": "all RDR tree shapes with <= 3 nodes x condition assignments from a pool of 4 x 2 datasets",
                   "thorough": "all RDR tree shapes with <= 4 nodes x condition assignments from a pool of 4 x 3 datasets"}
ASSUMPTIONS = ["when a rule has two refinement blocks of its own their conditions are mutually exclusive (which of two "
               "applicable refinements of the same rule wins is not stated)", "every node has a conclusion", "branch conditions mention only variables the base binds",
               "next_rule and Set are not part of the statement"]


def _cfg():
    avoid = open_features()
    return Cfg(nvars=(1, 2), pool=(2, 5), dom=(1, 3), profile="falsy" if "falsy_values" not in avoid else "clean",
               max_depth=1, allow_preds=True, noise=False, force_relate=True,
               allow_nested_not="not_under_not" not in avoid)


def _branch_cond(draw, ctx, nv, extra=None):
    if extra is not None:
        # joins a variable that only this branch (and the branches beneath it) uses
        c = leaf(draw, ctx, [draw(st.integers(0, nv - 1)), extra])
        if chance(draw, 1, 4):
            c = ["and", "nary", [c, leaf(draw, ctx, [draw(st.integers(0, nv - 1))])]]
        return c
    vs = [draw(st.integers(0, nv - 1))] if (nv == 1 or chance(draw, 1, 2)) else [0, 1]
    c = leaf(draw, ctx, vs)
    if chance(draw, 1, 5):
        c = ["not", "not_", c]
    elif chance(draw, 1, 5):
        c = [draw(st.sampled_from(["and", "or"])), "nary", [c, leaf(draw, ctx, [draw(st.integers(0, nv - 1))])]]
    return c


def _maybe_second_refinement(draw, ctx, nv, node, budget):
    """A rule may get a second refinement of its own (a further `with refinement(..)` block in the same rule block).
    Its condition is made exclusive with the first one's (c2 and not c1), and the first one has no alternative, so that
    at most one of the two applies and the prescribed conclusion is unambiguous."""
    r1 = node["ref"]
    if budget[0] > 0 and r1 is not None and r1["alt"] is None and not r1.get("extra") and chance(draw, 1, 3):
        c2 = _branch_cond(draw, ctx, nv)
        node["ref2"] = {"cond": ["and", "nary", [c2, ["not", "not_", r1["cond"]]]], "ref": None, "alt": None, "extra": False}
        budget[0] -= 1


def _tree(draw, ctx, nv, depth, budget, extra=None, extra_empty=False, as_ref=True):
    """budget: mutable [remaining nodes]."""
    use_extra = extra is not None and chance(draw, 1, 2)
    if extra_empty and not as_ref:
        # (an ALTERNATIVE that joins a variable without any value is the empty-domain-beneath-a-disjunction shape of KF-05;
        # only refinements join the empty variable here)
        use_extra = False
    node = {"cond": _branch_cond(draw, ctx, nv, extra if use_extra else None), "ref": None, "alt": None,
            "extra": use_extra}
    budget[0] -= 1
    if depth > 0:
        if budget[0] > 0 and chance(draw, 1, 2):
            node["ref"] = _tree(draw, ctx, nv, depth - 1, budget, extra, extra_empty, True)
            _maybe_second_refinement(draw, ctx, nv, node, budget)
        # a branch that joins the extra variable gets no alternative of its own: whether such an alternative applies
        # per base assignment or per value of the joined variable is not stated, so that shape is not generated
        # (... unless the extra variable has no value at all: then the branch never applies and its alternative is tried for
        # every assignment)
        if budget[0] > 0 and (not use_extra or extra_empty) and chance(draw, 1, 2):
            node["alt"] = _tree(draw, ctx, nv, depth - 1, budget, extra, extra_empty, False)
    return node


@st.composite
def _case(draw, tier):
    cfg = _cfg()
    nv = draw(st.sampled_from([1, 2, 2]))
    recs = draw_dataset(draw, cfg)
    n = len(recs)
    extra = nv if chance(draw, 1, 3) else None          # index of a variable only some branches join
    ctx = Ctx(cfg, recs, nv + (1 if extra is not None else 0))
    doms = [list(draw(st.permutations(list(range(n))))[:draw(st.integers(1, min(3, n)))])
            for _ in range(nv + (1 if extra is not None else 0))]
    extra_empty = extra is not None and chance(draw, 1, 4)
    if extra_empty:
        doms[extra] = []           # the variable only some branches join has NO value: such a branch never applies
    vars_ = [{"dom": v, "decl": "let", "type": "Ent"} for v in range(len(doms))]
    # base condition: binds every rule variable on every true path
    if nv == 1:
        base = leaf(draw, ctx, [0])
        if chance(draw, 1, 3):
            base = ["and", "nary", [base, leaf(draw, ctx, [0])]]
    else:
        base = leaf(draw, ctx, [0, 1])
        if chance(draw, 1, 3):
            base = ["and", "nary", [base, leaf(draw, ctx, [draw(st.integers(0, 1))])]]
    budget = [7]
    root = {"cond": base, "ref": None, "alt": None, "extra": False}
    budget[0] -= 1
    if chance(draw, 2, 3):
        root["ref"] = _tree(draw, ctx, nv, 2, budget, extra, extra_empty, True)
        _maybe_second_refinement(draw, ctx, nv, root, budget)
    if budget[0] > 0 and chance(draw, 2, 3):
        root["alt"] = _tree(draw, ctx, nv, 2, budget, extra, extra_empty, False)
    abandon_first = draw(st.sampled_from([0, 0, 0, 1, 2, 3]))
    # the second rule variable is not declared over a domain: it is the element flattened out of the first one's collection,
    # e = flatten(x.kids) - the assignments are the (x, element) pairs
    flat_second = nv == 2 and extra is None and chance(draw, 1, 5)
    if flat_second and any(len(set(r["kids"])) != len(r["kids"]) for r in recs):
        # how a collection that lists one element twice is counted is not the subject here (C16)
        flat_second = False
    # the conclusions are about the first variable only, the conditions about both: T(x) for every (x, y) that fires
    first_only = nv == 2 and extra is None and not flat_second and chance(draw, 1, 5)
    return {"conclude_on_first_only": first_only, "abandoned_stays_open": bool(abandon_first) and chance(draw, 1, 3), "flat_second": flat_second, "abandon_first": abandon_first, "ents": recs, "doms": doms, "vars": vars_, "tree": root, "dom_kind": "list", "nv": nv, "extra": extra,
            "alt_first": draw(st.booleans()), "sibling_alts": draw(st.booleans()),
            "quant": draw(st.sampled_from(["an", "infer"])), "split_base": draw(st.booleans())}


def strategy(tier):
    return _case(tier)


# ---- exhaustive slice ---------------------------------------------------------------------------

_V0, _V1 = ["var", 0], ["var", 1]
_POOL = [["cmp", ">=", ["attr", _V0, "a"], ["const", 2]], ["cmp", "==", ["attr", _V0, "b"], ["attr", _V1, "b"]],
         ["truth", ["call", _V1, "is_big", []]], ["cmp", "<", ["attr", _V1, "a"], ["const", 3]]]
_BASE = ["cmp", "<=", ["attr", _V0, "a"], ["attr", _V1, "a"]]


def _shapes(n):
    """All binary (ref/alt) tree shapes with exactly n nodes, as nested dicts without conditions."""
    if n == 0:
        yield None
        return
    for k in range(n):
        for l in _shapes(k):
            for r in _shapes(n - 1 - k):
                yield {"ref": l, "alt": r}


def _assign(shape, conds):
    it = iter(conds)

    def go(s):
        if s is None:
            return None
        c = next(it)
        return {"cond": c, "ref": go(s["ref"]), "alt": go(s["alt"])}
    return go(shape)


def _count(s):
    return 0 if s is None else 1 + _count(s["ref"]) + _count(s["alt"])


def exhaustive(tier, shard, nshards):
    def ds(rows):
        return [{"cls": "Ent", "k": i + 1, "a": a, "b": b, "s": "x", "tags": [1], "o": 1, "ref": 0, "kids": [0],
                 "d": {"p": 1, "q": 2}} for i, (a, b) in enumerate(rows)]
    datasets = [ds([(1, 1), (2, 2), (3, 1)]), ds([(2, 1), (1, 2), (3, 3)]), ds([(3, 2), (2, 2), (1, 1)])]
    datasets = datasets[:2 if tier == "quick" else 3]
    max_nodes = 3 if tier == "quick" else 4
    i = 0
    for n in range(1, max_nodes + 1):
        for shape in _shapes(n):
            for conds in itertools.product(_POOL, repeat=n - 1):
                i += 1
                if i % nshards != shard:
                    continue
                tree = _assign(shape, [_BASE] + list(conds))
                for d in datasets:
                    yield {"ents": d, "doms": [[0, 1, 2], [2, 1, 0]], "vars": [{"dom": 0, "decl": "let", "type": "Ent"},
                                                                                {"dom": 1, "decl": "let", "type": "Ent"}],
                           "tree": tree, "dom_kind": "list", "alt_first": bool(i % 2), "sibling_alts": bool((i // 2) % 2),
                           "quant": "an", "split_base": False, "slice": True}


# ---- reference interpreter ------------------------------------------------------------------------

def _number(tree):
    out = []

    def go(n):
        if n is None:
            return
        n["id"] = len(out)
        out.append(n)
        go(n["ref"])
        go(n.get("ref2"))
        go(n["alt"])
    go(tree)
    return out


def fire(node, env, info):
    if node is None:
        return None
    if A.eval_cond(node["cond"], env):
        r = fire(node["ref"], env, info)
        if r is None:
            r = fire(node.get("ref2"), env, info)
        return r if r is not None else node["id"]
    return fire(node["alt"], env, info)


# ---- building through the public API -----------------------------------------------------------------

def _emit(node, views, V, case, is_root=False):
    nv = case.get("nv", len(V))
    tag = TAGS[node["id"]]
    if node.get("extra"):
        Add(views, tag(x=V[0], y=V[case["extra"]]))
    else:
        Add(views, tag(x=V[0], y=V[1]) if (nv == 2 and not case.get("conclude_on_first_only")) else tag(x=V[0]))

    def do_ref():
        if node["ref"] is not None:
            with refinement(build_cond(node["ref"]["cond"], V)):
                _emit(node["ref"], views, V, case)
        if node.get("ref2") is not None:
            with refinement(build_cond(node["ref2"]["cond"], V)):
                _emit(node["ref2"], views, V, case)

    def do_alt():
        # an alternative chain (alt of alt of ...) can be spelled nested inside the previous alternative's block or as
        # further sibling blocks at this level
        chain = []
        a = node["alt"]
        if case["sibling_alts"]:
            while a is not None:
                chain.append(a)
                a = a["alt"]
            for a in chain:
                with alternative(build_cond(a["cond"], V)):
                    _emit(dict(a, alt=None), views, V, case)
        elif a is not None:
            with alternative(build_cond(a["cond"], V)):
                _emit(a, views, V, case)

    if case["alt_first"] and not is_root:
        do_alt()
        do_ref()
    else:
        do_ref()
        do_alt()


def _evaluate(case, objs, nodes, times=1):
    V, conts = declare_vars(case, objs)
    base = case["tree"]["cond"]
    with symbolic_mode():
        if case.get("flat_second"):
            from entity_query_language import flatten
            V = list(V)
            V[1] = flatten(V[0].kids)
        views = let(type_=Tag)
        if case.get("split_base") and base[0] == "and":
            conds = [build_cond(x, V) for x in base[2]]
        else:
            conds = [build_cond(base, V)]
        query = an(entity(views, *conds)) if case["quant"] == "an" else infer(views, *conds)
    with rule_mode(query):
        _emit(case["tree"], views, V, case, is_root=True)
    runs = []
    if case.get("abandon_first"):
        # an evaluation that the consumer gives up after k conclusions comes first (what the next one returns must not
        # depend on it)
        it_ = query.evaluate()
        for _ in range(case["abandon_first"]):
            if next(it_, _END) is _END:
                break
        if case.get("abandoned_stays_open"):
            runs_keep = [it_]       # neither closed nor collected while the next evaluations run
        else:
            it_.close()
    for _ in range(times):
        # the instances inferred by the previous evaluation are dropped from the registry first (conftest idiom): the
        # target variable has no domain, so they would otherwise be candidates for it
        for c in list(Variable._cache_.values()):
            c.clear()
        Variable._cache_.clear()
        runs.append(list(query.evaluate()))
    if case.get("abandon_first") and case.get("abandoned_stays_open"):
        it_.close()
    return runs


_END = object()


def check(case) -> Outcome:
    from entity_query_language.cache_data import enable_caching, disable_caching
    objs = build_entities(case["ents"])
    nodes = _number(case["tree"])
    nv = case.get("nv", len(case["vars"]))
    extra = case.get("extra")
    uses_extra = extra is not None and any(n.get("extra") for n in nodes)
    doms = var_domains(case, objs)
    if not uses_extra:
        doms = doms[:nv]
    expected = Counter()
    tags_fired = set()
    dom_extra = doms[extra] if uses_extra else []

    def fire_rows(node, env):
        """Ripple-down selection; a branch that joins the extra variable applies when SOME value of it matches, and then
        concludes (or is refined) once per matching value."""
        if node is None:
            return []
        if node.get("extra") and extra not in env:
            exts = [{**env, extra: w} for w in dom_extra if A.eval_cond(node["cond"], {**env, extra: w})]
        else:
            exts = [env] if A.eval_cond(node["cond"], env) else []
        if not exts:
            return fire_rows(node["alt"], env)
        out = []
        for e in exts:
            r = fire_rows(node["ref"], e) or fire_rows(node.get("ref2"), e)
            out += r if r else [(node["id"], e)]
        return out

    first_only = bool(case.get("conclude_on_first_only"))
    if case.get("flat_second"):
        combos = []
        for x_ in doms[0]:
            seen_ = set()
            for k_ in x_.kids:
                if id(k_) not in seen_:
                    seen_.add(id(k_))
                    combos.append((x_, k_))
    else:
        combos = itertools.product(*doms[:nv])
    for combo in combos:
        env = dict(enumerate(combo))
        for t, e in fire_rows(case["tree"], env):
            y = e[extra] if nodes[t].get("extra") else (combo[1] if (nv == 2 and not first_only) else None)
            expected[(f"Tag{t}",) + ident((combo[0], y))] += 1
            tags_fired.add(t)
    if uses_extra or case.get("flat_second") or first_only:
        # how often an identical conclusion is repeated for values of a variable it does not use (or for an element that a
        # collection lists twice) is not asserted
        expected = Counter(set(expected))
    nontrivial = len(tags_fired) >= 2 and any(t != 0 for t in tags_fired)
    depth_feats = []
    root = case["tree"]
    feats = []
    if root["ref"] is not None:
        feats.append("ref_under_base")
        if root["ref"]["ref"] is not None:
            feats.append("ref_under_ref")
        if root["ref"]["alt"] is not None:
            feats.append("alt_under_ref")
    if any(n.get("ref2") is not None for n in nodes):
        feats.append("two_refinements_of_one_rule")
    if root["alt"] is not None:
        feats.append("alt_under_base")
        if root["alt"]["ref"] is not None:
            feats.append("ref_under_alt")
        if root["alt"]["alt"] is not None:
            feats.append("alt_chain")
    if case.get("flat_second"):
        feats.append("second_variable_is_a_flattened_element")
    if uses_extra:
        feats.append("branch_joins_extra_variable")
        if case.get("abandon_first"):
            feats.append("abandoned_first_and_branch_joins_extra_variable")      # KF-55
    if first_only:
        feats.append("conclusions_about_the_first_variable_only")
    if case.get("abandoned_stays_open"):
        feats.append("abandoned_iterator_stays_open")
    if case.get("abandon_first"):
        feats.append("after_abandoned_evaluation")
    classes = list(feats) + [f"nodes{min(len(nodes), 7)}", f"vars{nv}", case["quant"],
                             "alt_first" if case["alt_first"] else "ref_first",
                             "sibling_alts" if case["sibling_alts"] else "nested_alts"]
    if case.get("slice"):
        classes.append("exhaustive_shapes")
    for caching in (False, True):
        for c in list(Variable._cache_.values()):      # drop instances inferred by the previous run (conftest idiom)
            c.clear()
        Variable._cache_.clear()
        (enable_caching if caching else disable_caching)()
        try:
            runs = _evaluate(case, objs, nodes, times=2)
        except Exception as e:
            if __import__("os").environ.get("EQLV_TRACE"): __import__("traceback").print_exc()
            return fail("exception", f"caching={caching}: {type(e).__name__}: {e}", nontrivial=nontrivial, classes=classes,
                        features=feats + [f"caching_{caching}"])
        finally:
            enable_caching()
        for attempt, res in enumerate(runs, 1):
            got = Counter()
            for o in res:
                if not isinstance(o, Tag):
                    return fail("not_an_instance", f"caching={caching}: result {o!r} is not a conclusion instance",
                                nontrivial=nontrivial, classes=classes, features=feats)
                got[(type(o).__name__,) + ident((o.x, o.y))] += 1
            if uses_extra or case.get("flat_second") or first_only:
                got = Counter(set(got))
            if got != expected:
                missing, extra_ = expected - got, got - expected
                kind = "missing_conclusions" if missing and not extra_ else ("extra_conclusions" if extra_ and not missing
                                                                             else "wrong_conclusions")
                def show(cnt):
                    return sorted(f"{k}x{v}" for k, v in Counter(x[0] for x in cnt.elements()).items())
                if attempt > 1:
                    kind = "reevaluation_" + kind
                return fail(kind, f"caching={caching}, evaluation {attempt}: expected tags {show(expected)} got {show(got)}; results {res}; "
                                  f"tree {render(case)['tree']}", nontrivial=nontrivial, classes=classes,
                            features=feats + [f"caching_{caching}", f"evaluation{attempt}"])
    return Outcome(True, nontrivial=nontrivial, classes=classes, features=feats)


def bucket(case, out):
    return out.kind + "|" + ",".join(f for f in out.features if f.startswith(("ref_", "alt_", "caching_")))


def _r_tree(n):
    if n is None:
        return None
    d = {"if": A.r_cond(n["cond"])}
    if n.get("extra"):
        d["concludes_over"] = "extra variable"
    if n["ref"] is not None:
        d["refinement"] = _r_tree(n["ref"])
    if n.get("ref2") is not None:
        d["second_refinement"] = _r_tree(n["ref2"])
    if n["alt"] is not None:
        d["alternative"] = _r_tree(n["alt"])
    return d


def render(case):
    return {"entities": [f"#{i}:Ent(a={r['a']},b={r['b']},s={r['s']!r})" for i, r in enumerate(case["ents"])],
            "doms": case["doms"], "tree": _r_tree(case["tree"]), "alt_first": case["alt_first"],
            "sibling_alts": case["sibling_alts"], "quant": case["quant"]}
