"""Condition / term AST of the harness (plain JSON-able lists), its Python-semantics evaluator
(the reference oracle; shares no code with EQL) and a renderer.

Terms      ["var", i] | ["attr", T, name] | ["idx", T, key] | ["call", T, meth, [encoded args]]
           | ["const", encoded] | ["flat", T]
Conditions ["cmp", op, L, R] | ["in", form, item, container] | ["truth", T]
           | ["fpred", name, [terms]] | ["cpred", name, [terms]] | ["hastype", T, clsname]
           | ["and", form, [conds]] | ["or", form, [conds]] | ["not", form, cond]
           | ["forall", univ_var_index, cond] | ["true"]
"""
from __future__ import annotations

import operator

from .world import dec, FUNC_PREDS, CLASS_PREDS, CLASSES, TYPES

OPS = {"==": operator.eq, "!=": operator.ne, "<": operator.lt, "<=": operator.le, ">": operator.gt,
       ">=": operator.ge}
MIRROR = {"==": "==", "!=": "!=", "<": ">", "<=": ">=", ">": "<", ">=": "<="}
NEGATE = {"==": "!=", "!=": "==", "<": ">=", "<=": ">", ">": "<=", ">=": "<"}


# ----------------------------------------------------------------------------- reference evaluator

def eval_term(t, env):
    k = t[0]
    if k == "var":
        return env[t[1]]
    if k == "attr":
        return getattr(eval_term(t[1], env), t[2])
    if k == "idx":
        return eval_term(t[1], env)[t[2]]
    if k == "call":
        return getattr(eval_term(t[1], env), t[2])(*[dec(a) for a in t[3]])
    if k == "const":
        return dec(t[1])
    if k == "pcall":
        return FUNC_PREDS[t[1]][1](*[eval_term(a, env) for a in t[2]])
    if k == "subq":
        # an(entity(v, c)) used as a value: the value of v (that c holds is the business of whoever evaluates the term)
        return env[t[1]]
    raise ValueError(f"unknown term {t!r}")


def eval_cond(c, env, domains=None) -> bool:
    k = c[0]
    if k == "true":
        return True
    if k == "cmp":
        return bool(OPS[c[1]](eval_term(c[2], env), eval_term(c[3], env)))
    if k == "in":
        return eval_term(c[2], env) in eval_term(c[3], env)
    if k == "truth":
        return bool(eval_term(c[1], env))
    if k == "fpred":
        return bool(FUNC_PREDS[c[1]][1](*[eval_term(a, env) for a in c[2]]))
    if k == "cpred":
        return bool(CLASS_PREDS[c[1]][1](*[eval_term(a, env) for a in c[2]]))
    if k == "hastype":
        return isinstance(eval_term(c[1], env), TYPES[c[2]])
    if k == "and":
        return all(eval_cond(x, env, domains) for x in c[2])
    if k == "or":
        return any(eval_cond(x, env, domains) for x in c[2])
    if k == "not":
        return not eval_cond(c[2], env, domains)
    if k == "forall":
        u = c[1]
        return all(eval_cond(c[2], {**env, u: w}, domains) for w in domains[u])
    if k == "const":
        return bool(c[1])
    if k == "sub":          # an(entity(v, c)) / an(set_of(vs, c)) used as a condition: means c
        return eval_cond(c[3], env, domains)
    raise ValueError(f"unknown condition {c!r}")


# ----------------------------------------------------------------------------- structure helpers

def cond_vars(c) -> set:
    k = c[0]
    if k in ("true", "const"):
        return set()
    if k == "cmp":
        return term_vars(c[2]) | term_vars(c[3])
    if k == "in":
        return term_vars(c[2]) | term_vars(c[3])
    if k in ("truth",):
        return term_vars(c[1])
    if k in ("fpred", "cpred"):
        s = set()
        for a in c[2]:
            s |= term_vars(a)
        return s
    if k == "hastype":
        return term_vars(c[1])
    if k in ("and", "or"):
        s = set()
        for x in c[2]:
            s |= cond_vars(x)
        return s
    if k == "not":
        return cond_vars(c[2])
    if k == "sub":
        return cond_vars(c[3]) | set(c[2])      # the variables a sub-query selects are variables of the query too
    if k == "forall":
        return cond_vars(c[2]) - {c[1]}
    raise ValueError(c)


def term_vars(t) -> set:
    if t[0] == "var":
        return {t[1]}
    if t[0] == "pcall":
        s_ = set()
        for a in t[2]:
            s_ |= term_vars(a)
        return s_
    if t[0] == "subq":
        return {t[1]}
    if t[0] == "const":
        return set()
    return term_vars(t[1])


def walk(c):
    """Yield every condition node (pre-order)."""
    yield c
    if c[0] in ("and", "or"):
        for x in c[2]:
            yield from walk(x)
    elif c[0] in ("not", "forall"):
        yield from walk(c[2])
    elif c[0] == "sub":
        yield from walk(c[3])


def terms_of(c):
    """Yield the value-position terms of all leaves."""
    for n in walk(c):
        if n[0] == "cmp":
            yield n[2]
            yield n[3]
        elif n[0] == "in":
            yield n[2]
            yield n[3]
        elif n[0] in ("fpred", "cpred"):
            yield from n[2]
        elif n[0] == "hastype":
            yield n[1]


def count_leaves(c) -> int:
    return sum(1 for n in walk(c) if n[0] not in ("and", "or", "not", "forall"))


def depth(c) -> int:
    if c[0] in ("and", "or"):
        return 1 + max(depth(x) for x in c[2])
    if c[0] in ("not", "forall"):
        return 1 + depth(c[2])
    return 0


def has_kind(c, *kinds) -> bool:
    return any(n[0] in kinds for n in walk(c))


def not_under_not(c, under=False) -> bool:
    """True when some negation sits (at any distance) beneath another negation."""
    if c[0] == "not":
        return under or not_under_not(c[2], True)
    if c[0] in ("and", "or"):
        return any(not_under_not(x, under) for x in c[2])
    if c[0] == "forall":
        return not_under_not(c[2], under)
    return False


def term_has_mapping(t) -> bool:
    return t[0] in ("attr", "idx", "call", "flat", "pcall")


def chain_len(t) -> int:
    n = 0
    while t[0] in ("attr", "idx", "call", "flat"):
        n += 1
        t = t[1]
    return n


# ----------------------------------------------------------------------------- rendering

def r_term(t) -> str:
    k = t[0]
    if k == "var":
        return f"v{t[1]}"
    if k == "attr":
        return f"{r_term(t[1])}.{t[2]}"
    if k == "idx":
        return f"{r_term(t[1])}[{t[2]!r}]"
    if k == "call":
        return f"{r_term(t[1])}.{t[2]}({', '.join(repr(dec(a)) for a in t[3])})"
    if k == "const":
        return repr(dec(t[1]))
    if k == "flat":
        return f"flatten({r_term(t[1])})"
    if k == "pcall":
        return f"{t[1]}({', '.join(r_term(a) for a in t[2])})"
    if k == "subq":
        return f"an(entity(v{t[1]}, {r_cond(t[2])}))"
    return str(t)


def r_cond(c) -> str:
    k = c[0]
    if k == "true":
        return "True"
    if k == "cmp":
        return f"{r_term(c[2])} {c[1]} {r_term(c[3])}"
    if k == "in":
        return f"{c[1]}({r_term(c[2])}, {r_term(c[3])})" if c[1] == "in_" else \
            f"contains({r_term(c[3])}, {r_term(c[2])})"
    if k == "truth":
        return r_term(c[1])
    if k in ("fpred", "cpred"):
        return f"{c[1]}({', '.join(r_term(a) for a in c[2])})"
    if k == "hastype":
        form = c[3] if len(c) > 3 else "kw"
        return {"pos": f"HasType({r_term(c[1])}, {c[2]})", "pos_kw": f"HasType({r_term(c[1])}, types_={c[2]})",
                "kw_rev": f"HasType(types_={c[2]}, variable={r_term(c[1])})"}.get(form, f"HasType(variable={r_term(c[1])}, types_={c[2]})")
    if k == "and":
        if c[1] == "nary":
            return "and_(" + ", ".join(r_cond(x) for x in c[2]) + ")"
        return "(" + " & ".join(r_cond(x) for x in c[2]) + f")[{c[1]}]"
    if k == "or":
        if c[1] == "nary":
            return "or_(" + ", ".join(r_cond(x) for x in c[2]) + ")"
        return "(" + " | ".join(r_cond(x) for x in c[2]) + f")[{c[1]}]"
    if k == "not":
        return f"not_({r_cond(c[2])})" if c[1] == "not_" else f"~({r_cond(c[2])})"
    if k == "forall":
        ut = r_term(c[3]) if len(c) > 3 else f"v{c[1]}"
        return f"for_all({ut}, {r_cond(c[2])})"
    if k == "const":
        return repr(bool(c[1]))
    if k == "sub":
        sel = ", ".join(f"v{i}" for i in c[2])
        return f"an(entity({sel}, {r_cond(c[3])}))" if c[1] == "entity" else f"an(set_of([{sel}], {r_cond(c[3])}))"
    return str(c)
