"""AST -> EQL expressions.  The only module that calls the public query-building API.

``build_query`` always builds a *fresh* expression tree: ``Not()`` mutates its operand in place,
so an expression object is never shared between two queries built by the harness.
"""
from __future__ import annotations

import json
import os

from dataclasses import dataclass, field
from typing import Any, List, Optional

from .world import CLASSES, FUNC_PREDS, CLASS_PREDS, dec, TYPES
from .ast import OPS

from entity_query_language import (an, the, entity, set_of, let, and_, or_, not_, contains, in_, symbolic_mode,
                                   From, flatten, for_all, HasType, rule_mode)


@dataclass
class Built:
    q: Any                       # the quantifier (An / The)
    vars: List[Any]              # EQL variables in declaration order
    sel: List[Any]               # selected EQL expressions, in selection order
    desc: str                    # "entity" | "set_of"
    domains: List[Any] = field(default_factory=list)   # the python containers handed to EQL (per variable)
    later: List[Any] = field(default_factory=list)     # expressions constructed after the query that mention its terms


def make_container(objs, idxs, kind):
    items = [objs[i] for i in idxs]
    if kind == "tuple":
        return tuple(items)
    if kind == "gen":
        return (o for o in items)
    return items


def _build_leaf(c, V):
    if c[0] == "cmp":
        return OPS[c[1]](build_term(c[2], V), build_term(c[3], V))
    item, cont = build_term(c[2], V), build_term(c[3], V)
    return in_(item, cont) if c[1] == "in_" else contains(cont, item)


class Vars(list):
    """The declared variables; with `memo` set, equal mapping terms (x.a, x.tags[0], x.val()) are built ONCE and the same
    expression object is used at every occurrence - what `f = x.a; and_(f > 0, f < 3)` does."""
    memo = None
    cmemo = None
    cused = None
    smemo = None
    sused = None
    reuse_condition_objects = False
    reuse_within_query = False
    fmemo = None


def build_term(t, V):
    k = t[0]
    if k == "var":
        return V[t[1]]
    memo = getattr(V, "memo", None)
    if memo is not None and k in ("attr", "idx", "call"):
        key = json.dumps(t, sort_keys=True)
        if key not in memo:
            memo[key] = _build_term(t, V)
        return memo[key]
    return _build_term(t, V)


def _build_term(t, V):
    k = t[0]
    if k == "pcall":
        return FUNC_PREDS[t[1]][0](*[build_term(a, V) for a in t[2]])
    if k == "subq":
        return an(entity(V[t[1]], build_cond(t[2], V)))
    if k == "attr":
        return getattr(build_term(t[1], V), t[2])
    if k == "idx":
        return build_term(t[1], V)[t[2]]
    if k == "call":
        return getattr(build_term(t[1], V), t[2])(*[dec(a) for a in t[3]])
    if k == "const":
        return dec(t[1])
    if k == "flat":
        return flatten(build_term(t[1], V))
    raise ValueError(t)


def _chain(fn_nary, binop, form, parts):
    from entity_query_language.symbolic import SymbolicExpression
    # `&` / `|` need a symbolic expression on their left (Python would evaluate `True & expr` itself); with a plain
    # constant among the operands the function form is what a user can write
    if form == "nary" or len(parts) == 1 or any(not isinstance(p, SymbolicExpression) for p in parts):
        return fn_nary(*parts)
    if form == "binl":
        acc = parts[0]
        for p in parts[1:]:
            acc = binop(acc, p)
        return acc
    if form == "binr":
        acc = parts[-1]
        for p in reversed(parts[:-1]):
            acc = binop(p, acc)
        return acc
    raise ValueError(form)


def _has_not(c):
    if c[0] == "not":
        return True
    if c[0] in ("and", "or"):
        return any(_has_not(x) for x in c[2])
    if c[0] == "sub":
        return _has_not(c[3])
    return False


def build_cond(c, V):
    """Must be called inside symbolic_mode()."""
    k = c[0]
    cmemo = getattr(V, "cmemo", None)
    if cmemo is not None and k in ("cmp", "in"):
        # comparison objects built once and used in two queries (c = x.a == 1; q1 = ...or_(c, d)...; q2 = ...for_all(u, c)...)
        # (one object is never used twice within ONE query: V.cused is cleared between the two queries)
        key = json.dumps(c, sort_keys=True)
        if key in V.cused and not getattr(V, "reuse_within_query", False):
            return _build_leaf(c, V)
        V.cused.add(key)
        if key not in cmemo:
            cmemo[key] = _build_leaf(c, V)
        return cmemo[key]
    if k in ("cmp", "in"):
        return _build_leaf(c, V)
    if cmemo is not None and k in ("and", "or") and getattr(V, "share_connectives", False) and not _has_not(c):
        # a whole disjunction / conjunction OBJECT built once and used as an operand in several queries
        # (either = or_(a, b); q1 = ...and_(c1, either)...; q2 = ...and_(c2, either)...)
        key = json.dumps(c, sort_keys=True)
        if key in cmemo and key not in V.cused:
            V.cused.add(key)
            return cmemo[key]
        if key not in V.cused:
            V.cused.add(key)
            fn, op = (and_, lambda a, b: a & b) if k == "and" else (or_, lambda a, b: a | b)
            cmemo[key] = _chain(fn, op, c[1], [build_cond(x, V) for x in c[2]])
            return cmemo[key]
    if k == "truth":
        memo = getattr(V, "memo", None)
        if memo is not None and c[1][0] in ("attr", "idx", "call"):
            # a condition-position occurrence may share its object with value-position occurrences, but one object is
            # never used as a condition TWICE (not_() rewrites its operands in place)
            key = "truth:" + json.dumps(c[1], sort_keys=True)
            if key in memo and not getattr(V, "reuse_condition_objects", False):
                return _build_term(c[1], V)
            memo[key] = True
        return build_term(c[1], V)
    if k == "fpred":
        fn = FUNC_PREDS[c[1]][0]
        return fn(*[build_term(a, V) for a in c[2]])
    if k == "cpred":
        cls = CLASS_PREDS[c[1]][0]
        names = ["e", "f"]
        return cls(**{n: build_term(a, V) for n, a in zip(names, c[2])})
    if k == "hastype":
        form = c[3] if len(c) > 3 else "kw"
        v, t = build_term(c[1], V), TYPES[c[2]]
        if form == "pos":
            return HasType(v, t)
        if form == "pos_kw":
            return HasType(v, types_=t)
        if form == "kw_rev":
            return HasType(types_=t, variable=v)
        return HasType(variable=v, types_=t)
    if k == "and":
        return _chain(and_, lambda a, b: a & b, c[1], [build_cond(x, V) for x in c[2]])
    if k == "or":
        return _chain(or_, lambda a, b: a | b, c[1], [build_cond(x, V) for x in c[2]])
    if k == "not":
        inner = build_cond(c[2], V)
        return not_(inner) if c[1] == "not_" else ~inner
    if k == "forall":
        univ = build_term(c[3], V) if len(c) > 3 else V[c[1]]
        LAST_FORALL[:] = [univ, V[c[1]]]
        if len(c) > 3 and c[3][0] == "flat":
            # for_all(flatten(s.kids), c): inside c the universal variable's index denotes the flattened ELEMENT
            V2 = Vars(V)
            if isinstance(V, Vars):
                V2.__dict__.update(V.__dict__)
                V2.memo = {} if V.memo is not None else None      # (terms over the element are other terms)
                V2.cmemo = None
            V2[c[1]] = univ
            return for_all(univ, build_cond(c[2], V2))
        fmemo = getattr(V, "fmemo", None)
        if fmemo is not None:
            # fa = for_all(u, c); and_(or_(fa, d), fa): equal for_all conditions of one query are ONE object
            key = json.dumps(c, sort_keys=True)
            if key not in fmemo:
                fmemo[key] = for_all(univ, build_cond(c[2], V))
            return fmemo[key]
        return for_all(univ, build_cond(c[2], V))
    if k == "const":
        return bool(c[1])
    if k == "sub":
        smemo = getattr(V, "smemo", None)
        if smemo is not None:
            # sub-query OBJECTS built once (q1 = an(entity(x, c))) and used in several places: on their own, in an earlier
            # enclosing query, in this one (never twice within ONE query: V.sused is cleared between queries)
            key = json.dumps(c, sort_keys=True)
            if key in smemo and key not in V.sused:
                V.sused.add(key)
                return smemo[key]
        inner = build_cond(c[3], V)
        q = an(entity(V[c[2][0]], inner)) if c[1] == "entity" else an(set_of([V[i] for i in c[2]], inner))
        if smemo is not None and key not in smemo:
            smemo[key] = q
            V.sused.add(key)
        return q
    raise ValueError(c)


def declare_vars(case, objs, containers=None):
    """Declare the case's variables in order; returns (variables, containers-per-variable)."""
    doms = case["doms"]
    kind = case.get("dom_kind", "list")
    shared = {}
    V, conts = [], []
    for vi, vd in enumerate(case["vars"]):
        j = vd["dom"]
        if containers is not None:
            cont = containers[vi]
        elif kind == "gen":
            cont = make_container(objs, doms[j], "gen")
        else:
            if j not in shared:
                shared[j] = make_container(objs, doms[j], kind)
            cont = shared[j]
        cls = CLASSES[vd.get("type", "Ent")]
        if vd.get("decl") == "registry":
            # no domain: the variable ranges over the registry of instances, optionally with field constraints; built in
            # query mode or in rule mode (where the constraints are expanded lazily at the first evaluation)
            with (rule_mode() if vd.get("in_rule") else symbolic_mode()):
                v = cls(**{f: dec(c) for f, c in vd.get("kw", [])})
            V.append(v)
            conts.append(None)
            continue
        if vd.get("decl", "let") == "let":
            v = let(cls, domain=cont)
        else:
            with symbolic_mode():
                v = cls(From(cont), **{f: dec(c) for f, c in vd.get("kw", [])})
        V.append(v)
        conts.append(cont)
    if case.get("flat_var"):
        # variable j is not declared over a domain: it is the element flattened out of variable i's collection
        j_, i_ = case["flat_var"]
        with symbolic_mode():
            V[j_] = flatten(V[i_].kids)
    if case.get("share_terms") or os.environ.get("EQLV_FORCE_SHARE"):
        V = Vars(V)
        V.memo = {}
        V.reuse_condition_objects = bool(case.get("same_object_plain_and_negated"))
    return V, conts


LAST_FORALL = []      # [universal expression object, universal variable] of the for_all built last


def later_uses(V):
    """Expressions CONSTRUCTED AFTER the query, never evaluated, that mention the query's mapping-term objects again as
    operands of a comparison (f = x.a; q = an(entity(x, ... f ...)); q2 = an(entity(x, f != 77)))."""
    memo = getattr(V, "memo", None)
    if not memo:
        return []
    out = []
    with symbolic_mode():
        for key, obj in list(memo.items()):
            if key.startswith("truth:") or obj is True:
                continue
            out.append(an(entity(V[0], obj != 77)))
    return out


def build_over(V, spec, negate: int = 0, quant: Optional[str] = None, negate_desc: int = 0,
               neg_form: str = "not_", conts=None) -> Built:
    """Build one query (spec: cond / sel / desc / quant / split_top) over already declared variables ``V``."""
    cond = spec.get("cond")
    desc = spec.get("desc", "entity")
    quant = quant or spec.get("quant", "an")
    with symbolic_mode():
        sel = [build_term(t, V) for t in spec["sel"]]
        conds = []
        if cond is not None:
            if negate == 0 and spec.get("split_top") and cond[0] == "and":
                conds = [build_cond(x, V) for x in cond[2]]
            else:
                e = build_cond(cond, V)
                for _ in range(negate):
                    e = not_(e) if neg_form == "not_" else ~e
                conds = [e]
        if desc == "term":
            # a predicate-form term is the whole description: the(T(From(d), f=v)) / an(T(From(d), f=v))
            d = sel[0]
            desc = "entity"
        elif desc == "entity":
            d = entity(sel[0], *conds)
        else:
            d = set_of(sel, *conds)
        for _ in range(negate_desc):
            d = not_(d)
        q = an(d) if quant == "an" else the(d)
    return Built(q, V, sel, desc, conts or [])


def build_query(case, objs, containers=None, negate: int = 0, quant: Optional[str] = None,
                negate_desc: int = 0, neg_form: str = "not_") -> Built:
    """Build the query described by ``case`` over the instantiated dataset ``objs`` (fresh variables, fresh tree).

    ``negate`` wraps the whole condition in that many negations (used by C03).
    """
    V, conts = declare_vars(case, objs, containers)
    earlier = list(case.get("earlier_queries_sharing_comparisons") or [])
    if case.get("prelude_sharing_comparisons") is not None:
        earlier.insert(0, {"cond": case["prelude_sharing_comparisons"], "take": None})
    if earlier:
        # EARLIER queries over the same variables and the same selection that contain the same comparison OBJECTS
        # (c = x.a == 1 built once and used in several queries); each is evaluated to completion, or given up after
        # `take` results, before the next one is built
        if not isinstance(V, Vars):
            V = Vars(V)
        V.cmemo = {}

        def run_earlier(pre, e):
            it = pre.q.evaluate()
            n = 0
            for _ in it:
                n += 1
                if e.get("take") is not None and n >= e["take"]:
                    break
            close = getattr(it, "close", None)
            if close:
                close()
        if case.get("all_queries_built_before_any_is_evaluated"):
            # (when the query negates a shared comparison, not_() has rewritten it in place before the earlier queries
            # run: they then mean something else, which does not matter here, their results are not looked at)
            pres = []
            for e in earlier:
                V.cused = set()
                pres.append(build_over(V, dict(case, cond=e["cond"], split_top=False, quant="an"), conts=conts))
            V.cused = set()
            main = build_over(V, case, negate, quant, negate_desc, neg_form, conts)
            for pre, e in zip(pres, earlier):
                run_earlier(pre, e)
            return main
        for e in earlier:
            V.cused = set()
            run_earlier(build_over(V, dict(case, cond=e["cond"], split_top=False, quant="an"), conts=conts), e)
        V.cused = set()
    if case.get("prelude") is not None:
        # an EARLIER query over the same variables and the same selection, built from the same mapping expression
        # objects (f = x.a used in two queries), is evaluated to completion first; what it returns is not looked at
        if getattr(V, "memo", None) is None:
            V = Vars(V)
            V.memo = {}
        pre = build_over(V, dict(case, cond=case["prelude"], split_top=False, quant="an"), conts=conts)
        for _ in pre.q.evaluate():
            pass
    if case.get("one_comparison_object_twice") and not negate and not negate_desc:
        # a = x.a > 1; or_(a, and_(a, b)): equal comparison leaves of the (negation-free) condition are ONE object, also
        # within this one query
        if not isinstance(V, Vars):
            V = Vars(V)
        if V.cmemo is None:
            V.cmemo = {}
        V.cused = set()
        V.reuse_within_query = True
    if case.get("one_forall_object_twice") and not negate and not negate_desc:
        if not isinstance(V, Vars):
            V = Vars(V)
        V.fmemo = {}
    main = build_over(V, case, negate, quant, negate_desc, neg_form, conts)
    if case.get("later_uses"):
        main.later = later_uses(V)       # kept alive with the query
    if case.get("universal_mentioned_later") and LAST_FORALL:
        # the universal expression OBJECT of the for_all (u.a) is mentioned again, in condition position, in a query that is
        # built after this one and never evaluated
        with symbolic_mode():
            main.later = list(main.later) + [an(entity(LAST_FORALL[1], LAST_FORALL[0]))]
    return main


def rows_of(built: Built, results) -> List[tuple]:
    """Project results to tuples of selected values (one tuple per row)."""
    out = []
    for r in results:
        if built.desc == "entity":
            out.append((r,))
        else:
            out.append(tuple(r[e] for e in built.sel))
    return out


# ----------------------------------------------------------------------------- rule inference

from entity_query_language import infer, rule_mode  # noqa: E402


def build_head(head, V):
    """Must be called inside rule_mode(): the symbolic constructor call of the rule head."""
    cls = CLASSES[head["cls"]]
    args = [(k, build_term(t, V)) for k, t in head["args"]]
    if head.get("positional"):
        return cls(*[v for _, v in args])
    return cls(**dict(args))


def build_infer(V, head, cond, style: str = "infer_entity", split_top: bool = False):
    """infer(entity(T(f=e...), conditions)) built in rule mode over declared variables V."""
    with rule_mode():
        h = build_head(head, V)
        if cond is None:
            conds = []
        elif split_top and cond[0] == "and":
            conds = [build_cond(x, V) for x in cond[2]]
        else:
            conds = [build_cond(cond, V)]
        if style == "infer_entity":
            q = infer(entity(h, *conds))
        elif style == "an_in_rule_mode":
            q = an(entity(h, *conds))      # as in the repository's rule tests: a rule written with an(...) in rule mode
        else:
            q = infer(h, *conds)
    return q
