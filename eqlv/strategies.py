"""Hypothesis strategies for datasets, conditions and queries - sound by construction.

Everything is drawn through ``draw``; there is no ``assume`` and no rejection: the dataset is drawn
first, then the condition is drawn *against* it, so that indices are in range, chained attributes
never pass through a missing object and ordered comparisons only relate mutually ordered values
(no generated condition raises under ordinary Python semantics).
"""
from __future__ import annotations

from dataclasses import dataclass, field
from typing import List, Optional, Tuple

from hypothesis import strategies as st

from .world import enc

ENT_CLASSES = ["Ent", "Ent", "Ent", "EntSub", "EntSubSub", "EntPlain", "EntV", "EntV", "EntKw"]

PROFILES = {
    "clean": dict(ints=[1, 2, 3], strs=["x", "xy", "y"], tag_len=(1, 3), kids_len=(1, 3),
                  anys=[1, 2, "x", True, (1,)]),
    "falsy": dict(ints=[0, 1, 2, 3], strs=["", "x", "xy", "y"], tag_len=(0, 3), kids_len=(0, 3),
                  anys=[None, False, 0, "", (), [], 1, "x", True]),
}


@dataclass
class Cfg:
    nvars: Tuple[int, int] = (1, 1)
    pool: Tuple[int, int] = (1, 6)          # number of entities in the dataset
    dom: Tuple[int, int] = (0, 6)           # domain size per variable
    max_product: int = 64                   # bound on the Cartesian product of the domains
    profile: str = "clean"
    max_depth: int = 3
    allow_not: bool = True
    allow_nested_not: bool = True
    allow_preds: bool = True
    allow_truth: bool = True
    allow_any: bool = True                  # the o slot and its comparisons
    allow_empty_cond: bool = False
    noise: bool = True                      # non-Ent objects mixed into domains (filtered by type)
    decls: Tuple[str, ...] = ("let", "from")
    dom_kinds: Tuple[str, ...] = ("list", "list", "tuple", "gen")
    select: str = "first"                   # first | all | any (C02)
    desc: Tuple[str, ...] = ("entity",)
    quant: str = "an"
    value_terms_in_select: bool = False
    and_forms: Tuple[str, ...] = ("nary", "binl", "binr")
    force_relate: bool = False              # make the condition relate >= 2 variables when possible
    avoid: frozenset = frozenset()          # features excluded by construction (open known findings)
    exclude_leaves: frozenset = frozenset()  # leaf kinds not to generate (e.g. C19's twin cannot preserve substring tests)
    use_k: bool = True                       # whether the unique key k may be used as an int term
    clones: Tuple[int, int] = (1, 8)         # probability (num, den) of making some records value-equal EntV clones
    kw_vars: Tuple[int, int] = (0, 1)        # probability that a variable is declared as T(From(d), field=const)
    const_operands: Tuple[int, int] = (1, 12)  # probability that an operand of and/or is a constant / variable-free test
    foreign_only: Tuple[int, int] = (1, 20)  # probability that one domain holds only objects of other classes (needs noise)
    empty_dom: Tuple[int, int] = (1, 12)     # probability that a domain may come out empty (when dom[0] == 0)
    earlier_sharing: Tuple[int, int] = (0, 1)  # probability of earlier queries that share comparison objects with the query
    force_template: Optional[str] = None     # every condition is drawn from this shape template
    extra_templates: Tuple[str, ...] = ()    # additional weight for named shape templates (needs >= 2 variables)


def chance(draw, num: int, den: int) -> bool:
    """True with probability num/den; shrinks towards False."""
    return draw(st.sampled_from([False] * (den - num) + [True] * num))


# ----------------------------------------------------------------------------- dataset

def draw_dataset(draw, cfg: Cfg, n: Optional[int] = None):
    P = PROFILES[cfg.profile]
    if n is None:
        n = draw(st.integers(*cfg.pool))
    recs = []
    for i in range(n):
        tl = draw(st.integers(*P["tag_len"]))
        kl = draw(st.integers(*P["kids_len"]))
        recs.append({
            "cls": draw(st.sampled_from(ENT_CLASSES)),
            "k": i + 1,
            "a": draw(st.sampled_from(P["ints"])),
            "b": draw(st.sampled_from(P["ints"])),
            "s": draw(st.sampled_from(P["strs"])),
            "tags": [draw(st.sampled_from(P["ints"])) for _ in range(tl)],
            "o": enc(draw(st.sampled_from(P["anys"]))) if cfg.allow_any else 1,
            "ref": draw(st.integers(0, n - 1)),
            "kids": [draw(st.integers(0, n - 1)) for _ in range(kl)],
            "d": {"p": draw(st.sampled_from(P["ints"])), "q": draw(st.sampled_from(P["ints"]))},
        })
    # value-equal but distinct objects: clones of one record as EntV (which compares by value)
    if n >= 2 and chance(draw, cfg.clones[0], cfg.clones[1]):
        base = recs[draw(st.integers(0, n - 1))]
        base["cls"] = "EntV"
        for _ in range(draw(st.integers(1, 2))):
            r = recs[draw(st.integers(0, n - 1))]
            if r is not base:
                r.update(cls="EntV", a=base["a"], b=base["b"], s=base["s"], tags=list(base["tags"]))
    return recs


class Ctx:
    """What the condition generator may rely on, derived from the drawn dataset."""

    def __init__(self, cfg: Cfg, recs: List[dict], nvars: int):
        self.cfg = cfg
        self.P = PROFILES[cfg.profile]
        ents = [r for r in recs if r.get("cls", "Ent") in ("Ent", "EntKw", "EntSub", "EntSubSub", "EntPlain", "EntV")]
        self.min_tags = min((len(r["tags"]) for r in ents), default=0)
        self.min_kids = min((len(r["kids"]) for r in ents), default=0)
        self.nvars = nvars
        self.n_ents = len(ents)


# ----------------------------------------------------------------------------- terms

def ent_term(draw, ctx: Ctx, var: int, depth: int = 2):
    t = ["var", var]
    for _ in range(draw(st.sampled_from([0, 0, 0, 1, 1, 2])) if depth else 0):
        if ctx.min_kids > 0 and chance(draw, 1, 4):
            t = ["idx", ["attr", t, "kids"], draw(st.integers(0, ctx.min_kids - 1))]
        else:
            t = ["attr", t, "ref"]
    return t


def int_term(draw, ctx: Ctx, var: int):
    e = ent_term(draw, ctx, var)
    choices = ["a", "a", "a", "b", "b", "b", "val", "val", "d", "d", "twin", "pval"] + (["k", "k"] if ctx.cfg.use_k else [])
    if ctx.min_tags > 0:
        choices += ["tag", "pick"]
    c = draw(st.sampled_from(choices))
    if c in ("a", "b", "k"):
        return ["attr", e, c]
    if c == "val":
        return ["call", e, "val", []]
    if c == "pval":
        return ["pcall", "p_val", [e]]      # the result of a @predicate function as a value
    if c == "twin":
        return ["attr", ["call", e, "twin", []], "a"]      # the method constructs a @symbol instance
    if c == "d":
        return ["idx", ["attr", e, "d"], draw(st.sampled_from(["p", "q"]))]
    i = draw(st.integers(0, ctx.min_tags - 1))
    if c == "tag":
        return ["idx", ["attr", e, "tags"], i]
    return ["call", e, "pick", [i]]


def const_int(draw, ctx):
    return ["const", draw(st.sampled_from(ctx.P["ints"] + [4]))]


CMP_OPS = ["==", "!=", "<", "<=", ">", ">="]


def value_term_any(draw, ctx: Ctx, var: int):
    """A value-typed term over one variable whose value may be falsy: the anything slot, an int term, the string."""
    e = ent_term(draw, ctx, var)
    k = draw(st.sampled_from(["o", "o", "int", "s"]))
    return ["attr", e, "o"] if k == "o" else (int_term(draw, ctx, var) if k == "int" else ["attr", e, "s"])


def value_pred(draw, ctx: Ctx, T_):
    """A predicate whose argument is a VALUE: HasType(value, int | tuple) or the @predicate function p_val_eq(value, const)."""
    if draw(st.booleans()):
        return ["hastype", T_, draw(st.sampled_from(["int", "int", "tuple"])), draw(st.sampled_from(["kw", "pos", "pos_kw", "kw_rev"]))]
    P = ctx.P
    consts = P["ints"] if (T_[0] != "attr" or T_[2] not in ("o", "s")) else (P["strs"] if T_[2] == "s" else
                                                                             [a for a in P["anys"] if not isinstance(a, list)])
    return ["fpred", "p_val_eq", [T_, ["const", enc(draw(st.sampled_from(consts)))]]]


# ----------------------------------------------------------------------------- leaves

def leaf(draw, ctx: Ctx, vars_: List[int]):
    """A leaf condition mentioning exactly the variables in ``vars_`` (1 or 2 of them)."""
    cfg = ctx.cfg
    if len(vars_) == 2:
        x, y = vars_
        kinds = ["int2", "int2", "int2", "ent2", "ent2", "str2", "inkids", "intag2"]
        if cfg.allow_preds:
            kinds += ["fpred2", "cpred2"]
        kinds = [x for x in kinds if x not in cfg.exclude_leaves]
        k = draw(st.sampled_from(kinds))
        if k == "int2":
            return ["cmp", draw(st.sampled_from(CMP_OPS)), int_term(draw, ctx, x), int_term(draw, ctx, y)]
        if k == "ent2":
            return ["cmp", draw(st.sampled_from(["==", "==", "!="])), ent_term(draw, ctx, x), ent_term(draw, ctx, y)]
        if k == "str2":
            return ["cmp", draw(st.sampled_from(CMP_OPS)), ["attr", ent_term(draw, ctx, x), "s"],
                    ["attr", ent_term(draw, ctx, y), "s"]]
        if k == "inkids":
            return ["in", draw(st.sampled_from(["in_", "contains"])), ent_term(draw, ctx, x),
                    ["attr", ent_term(draw, ctx, y), "kids"]]
        if k == "intag2":
            return ["in", draw(st.sampled_from(["in_", "contains"])), int_term(draw, ctx, x),
                    ["attr", ent_term(draw, ctx, y), "tags"]]
        if k == "fpred2":
            return ["fpred", draw(st.sampled_from(["p_a_lt", "p_same_b"])), [["var", x], ["var", y]]]
        return ["cpred", "BLess", [["var", x], ["var", y]]]
    x = vars_[0]
    kinds = ["intc", "intc", "intc", "cint", "intint", "strc", "cstr", "intag", "inconst", "substr", "selfent"]
    if cfg.allow_any:
        kinds += ["anyc", "anyin"]
    if cfg.allow_truth:
        kinds += ["big", "atleast", "starts", "tval", "tval"]
    if cfg.allow_preds:
        kinds += ["fpred1", "fpred1r", "fpred1d", "cpred1", "hastype"]
    if cfg.allow_preds and cfg.allow_truth:
        kinds += ["heavy"]
    if cfg.allow_preds and cfg.allow_any:
        kinds += ["valpred"]
    kinds = [x for x in kinds if x not in cfg.exclude_leaves]
    k = draw(st.sampled_from(kinds))
    P = ctx.P
    if k == "intc":
        return ["cmp", draw(st.sampled_from(CMP_OPS)), int_term(draw, ctx, x), const_int(draw, ctx)]
    if k == "cint":
        return ["cmp", draw(st.sampled_from(CMP_OPS)), const_int(draw, ctx), int_term(draw, ctx, x)]
    if k == "intint":
        return ["cmp", draw(st.sampled_from(CMP_OPS)), int_term(draw, ctx, x), int_term(draw, ctx, x)]
    if k == "strc":
        return ["cmp", draw(st.sampled_from(CMP_OPS)), ["attr", ent_term(draw, ctx, x), "s"],
                ["const", draw(st.sampled_from(P["strs"]))]]
    if k == "cstr":
        return ["cmp", draw(st.sampled_from(CMP_OPS)), ["const", draw(st.sampled_from(P["strs"]))],
                ["attr", ent_term(draw, ctx, x), "s"]]
    if k == "intag":
        item = draw(st.sampled_from([const_int(draw, ctx), int_term(draw, ctx, x)]))
        return ["in", draw(st.sampled_from(["in_", "contains"])), item, ["attr", ent_term(draw, ctx, x), "tags"]]
    if k == "inconst":
        tup = draw(st.lists(st.sampled_from(P["ints"]), min_size=0 if cfg.profile == "falsy" else 1, max_size=3))
        return ["in", draw(st.sampled_from(["in_", "contains"])), int_term(draw, ctx, x), ["const", enc(tuple(tup))]]
    if k == "substr":
        return ["in", draw(st.sampled_from(["in_", "contains"])), ["const", draw(st.sampled_from(["x", "y", "xy"]))],
                ["attr", ent_term(draw, ctx, x), "s"]]
    if k == "selfent":
        return ["cmp", draw(st.sampled_from(["==", "!="])), ent_term(draw, ctx, x), ent_term(draw, ctx, x)]
    if k == "anyc":
        return ["cmp", draw(st.sampled_from(["==", "!="])), ["attr", ent_term(draw, ctx, x), "o"],
                ["const", enc(draw(st.sampled_from(P["anys"])))]]
    if k == "anyin":
        tup = draw(st.lists(st.sampled_from([a for a in P["anys"] if not isinstance(a, list)]), min_size=1,
                            max_size=3))
        return ["in", draw(st.sampled_from(["in_", "contains"])), ["attr", ent_term(draw, ctx, x), "o"],
                ["const", enc(tuple(tup))]]
    if k == "big":
        return ["truth", ["call", ent_term(draw, ctx, x), "is_big", []]]
    if k == "valpred":
        return value_pred(draw, ctx, value_term_any(draw, ctx, x))
    if k == "heavy":
        return ["truth", ["call", ent_term(draw, ctx, x), "heavy", []]]     # the method calls a @predicate function
    if k == "atleast":
        return ["truth", ["call", ent_term(draw, ctx, x), "at_least", [draw(st.sampled_from(P["ints"]))]]]
    if k == "starts":
        return ["truth", ["call", ["attr", ent_term(draw, ctx, x), "s"], "startswith",
                          [draw(st.sampled_from(["x", "y", "xy"]))]]]
    if k == "tval":
        # a value-typed expression standing in condition position: interpreted as a boolean (bool(value))
        e = ent_term(draw, ctx, x)
        what = draw(st.sampled_from(["int", "s", "tags", "o", "kids", "val"]))
        if what == "int":
            return ["truth", int_term(draw, ctx, x)]
        if what == "val":
            return ["truth", ["call", e, "val", []]]
        return ["truth", ["attr", e, what]]
    if k == "fpred1":
        return ["fpred", "p_a_ge", [["var", x], ["const", draw(st.sampled_from(P["ints"]))]]]
    if k == "fpred1d":
        # a defaulted parameter: passed positionally, or left out (the default applies)
        return ["fpred", "p_a_ge_dflt", [["var", x]] + ([["const", draw(st.sampled_from(P["ints"]))]] if chance(draw, 3, 4) else [])]
    if k == "fpred1r":
        # the variable is not the first argument: the arguments before it are constants
        return ["fpred", "p_n_le_a", [["const", draw(st.sampled_from(P["ints"]))], ["var", x]]]
    if k == "cpred1":
        return ["cpred", "IsBig", [["var", x]]]
    # spellings of the same term: both keywords, both positional, variable positional and type by keyword, keywords with
    # the type first
    return ["hastype", ent_term(draw, ctx, x), draw(st.sampled_from(["EntSub", "EntPlain", "Ent"])),
            draw(st.sampled_from(["kw", "pos", "pos_kw", "kw_rev"]))]


# ----------------------------------------------------------------------------- condition trees

def pick_vars(draw, ctx: Ctx, prefer_two: bool):
    n = ctx.nvars
    if n == 1:
        return [0]
    two = chance(draw, 7 if prefer_two else 4, 10)
    if two:
        x = draw(st.integers(0, n - 1))
        y = draw(st.integers(0, n - 2))
        if y >= x:
            y += 1
        return [x, y]
    return [draw(st.integers(0, n - 1))]


def cond_tree(draw, ctx: Ctx, depth: int, under_not: bool = False):
    cfg = ctx.cfg
    if depth <= 0 or chance(draw, 3, 10):
        return leaf(draw, ctx, pick_vars(draw, ctx, cfg.force_relate))
    kinds = ["and", "and", "or", "or"]
    if cfg.allow_not and (cfg.allow_nested_not or not under_not):
        kinds.append("not")
    k = draw(st.sampled_from(kinds))
    if k == "not":
        return ["not", draw(st.sampled_from(["not_", "not_", "~"])), cond_tree(draw, ctx, depth - 1, True)]
    n = draw(st.sampled_from([2, 2, 2, 3]))
    form = draw(st.sampled_from(cfg.and_forms))
    kids = [cond_tree(draw, ctx, depth - 1, under_not) for _ in range(n)]
    if chance(draw, cfg.const_operands[0], cfg.const_operands[1]):
        # a Python constant, or a membership test between two constants, as one of the operands (and_/or_ accept
        # plain values; such an operand has no variable of its own)
        c = draw(st.sampled_from([["const", True], ["const", False],
                                  ["in", "in_", ["const", 2], ["const", enc((1, 2, 3))]],
                                  ["in", "contains", ["const", 5], ["const", enc((1, 2, 3))]]]))
        kids[draw(st.integers(0, len(kids) - 1))] = c
        if all(x[0] == "const" or (x[0] == "in" and x[2][0] == "const" and x[3][0] == "const") for x in kids):
            kids[0] = leaf(draw, ctx, pick_vars(draw, ctx, False))
    return [k, form, kids]


def template_cond(draw, ctx: Ctx, force=None):
    """Weighted shape templates for the shapes the anchors single out."""
    cfg = ctx.cfg
    n = ctx.nvars
    T = ["free", "free", "free"]
    if n >= 2:
        T += ["and_right_diffvar_or", "and_two_ors", "or_overlap", "subset_only", "and_independent", "filter_then_join", "and_right_nested_cross", "and_left_or_then_other"]
    if n >= 3:
        T += ["indep_and_or3", "indep_and_or3", "indep_and_join3"]
    T += ["same_var_or", "not_over_and", "not_over_or", "and_of_ors_samevar"] if cfg.allow_not else \
        ["same_var_or", "and_of_ors_samevar"]
    T += ["same_comparison_twice"]
    if cfg.allow_truth and cfg.allow_not and "starts" not in cfg.exclude_leaves:
        T += ["truth_then_nested_use"]
    if cfg.allow_preds and cfg.allow_any and "tval" not in cfg.exclude_leaves:
        T += ["truth_or_value_pred"]
    if cfg.allow_truth and cfg.allow_not and "tval" not in cfg.exclude_leaves:
        T += ["plain_and_negated_same_truth"]
    if n >= 2:
        T += [t_ for t_ in cfg.extra_templates if n >= 3 or not t_.startswith("indep_")]
    t = force or draw(st.sampled_from(T))
    f = lambda: draw(st.sampled_from(cfg.and_forms))
    if t == "free":
        return cond_tree(draw, ctx, draw(st.integers(0, cfg.max_depth)))
    if t == "and_right_diffvar_or":
        vs = list(range(n))
        a = leaf(draw, ctx, [draw(st.sampled_from(vs))])
        x, y = (draw(st.permutations(vs)))[:2]
        o1 = leaf(draw, ctx, [y])
        o2 = leaf(draw, ctx, [x, y]) if draw(st.booleans()) else leaf(draw, ctx, [x])
        return ["and", f(), [a, ["or", f(), [o1, o2]]]]
    if t == "filter_then_join":
        # one operand binds x, the other relates x to y through a low-cardinality attribute: a one-to-many join whose
        # groups of partners an abandoned evaluation can be stopped in the middle of
        x, y = (draw(st.permutations(list(range(n)))))[:2]
        at = draw(st.sampled_from(["a", "b"]))
        rel = draw(st.sampled_from([["cmp", "==", ["attr", ["var", y], at], ["attr", ["var", x], at]],
                                    ["cmp", "!=", ["var", x], ["var", y]],
                                    ["cmp", "<=", ["attr", ["var", x], at], ["attr", ["var", y], at]]]))
        parts = [leaf(draw, ctx, [x]), rel]
        if chance(draw, 1, 4):
            parts.reverse()
        return ["and", f(), parts]
    if t == "truth_then_nested_use":
        # s = x.s used as a bare condition and then beneath another expression that holds for the falsy value:
        # and_(s, not_(s.startswith('y'))) - with shared expression objects the second use re-parents the first
        x = draw(st.integers(0, n - 1))
        T_ = ["attr", ent_term(draw, ctx, x) if chance(draw, 1, 3) else ["var", x], "s"]
        second = draw(st.sampled_from([["not", "not_", ["truth", ["call", T_, "startswith", [draw(st.sampled_from(["x", "y"]))]]]],
                                       ["not", "not_", ["in", "in_", ["const", draw(st.sampled_from(["x", "y"]))], T_]],
                                       ["cmp", "!=", T_, ["const", draw(st.sampled_from(["x", "xy"]))]]]))
        return ["and", f(), [["truth", T_], second]]
    if t == "same_comparison_twice":
        # one comparison (object) occurring twice in a negation-free condition: or_(a, and_(a, b)), and_(a, or_(a, b)), ...
        vs_ = pick_vars(draw, ctx, True)
        a_ = leaf(draw, ctx, vs_)
        while a_[0] not in ("cmp", "in"):
            a_ = ["cmp", draw(st.sampled_from(CMP_OPS)), int_term(draw, ctx, vs_[0]), const_int(draw, ctx)]
        b_ = leaf(draw, ctx, pick_vars(draw, ctx, False))
        inner_k, outer_k = draw(st.sampled_from([("and", "or"), ("or", "and"), ("or", "or"), ("and", "and")]))
        inner = [inner_k, f(), list(draw(st.permutations([a_, b_])))]
        ctx.one_comparison_object_twice = True
        return [outer_k, f(), list(draw(st.permutations([a_, inner])))]
    if t == "value_equal_join":
        # an equality join whose one side is a bare variable: y == x.ref, x.ref == y, x == y - over data with value-equal
        # but distinct objects (EntV) the join is on ==, not on identity
        x, y = (draw(st.permutations(list(range(n)))))[:2]
        lhs = draw(st.sampled_from([["attr", ["var", x], "ref"], ["var", x], ent_term(draw, ctx, x)]))
        cmp_ = ["cmp", "==", lhs, ["var", y]] if draw(st.booleans()) else ["cmp", "==", ["var", y], lhs]
        if chance(draw, 1, 2):
            return cmp_
        parts = [leaf(draw, ctx, [x]), cmp_]
        if chance(draw, 1, 4):
            parts.reverse()
        return ["and", f(), parts]
    if t == "plain_and_negated_same_truth":
        # the same attribute / call written twice (two accesses, e.g. x.o and again x.o), once plain and once negated:
        # or_(and_(x.o, A), and_(not_(x.o), B)); negating one occurrence must not touch the other
        x = draw(st.integers(0, n - 1))
        e = ent_term(draw, ctx, x) if chance(draw, 1, 3) else ["var", x]
        what = draw(st.sampled_from(["o", "o", "s", "tags", "a", "is_big"]))
        T_ = ["call", e, "is_big", []] if what == "is_big" else ["attr", e, what]
        pos = ["and", f(), [["truth", T_], leaf(draw, ctx, [x])]]
        neg = ["and", f(), [["not", draw(st.sampled_from(["not_", "~"])), ["truth", T_]], leaf(draw, ctx, [x])]]
        parts = [pos, neg] if draw(st.booleans()) else [neg, pos]
        # (KF-64: ... or ONE object for both occurrences, f = x.o; or_(and_(f, A), and_(not_(f), B)) - not_() rewrites its
        # operand in place, which negates the other occurrence too)
        ctx.same_object_plain_and_negated = chance(draw, 1, 4)
        return [draw(st.sampled_from(["or", "or", "and"])), f(), parts]
    if t == "truth_or_value_pred":
        # f = x.o stands in condition position AND is passed on, as a value, to a predicate - in one disjunction, so that
        # the rows on which f is falsy reach the predicate: or_(f, HasType(f, int)), or_(p_val_eq(f, 0), f, ...)
        x = draw(st.integers(0, n - 1))
        T_ = value_term_any(draw, ctx, x)
        parts = [["truth", T_], value_pred(draw, ctx, T_)]
        if chance(draw, 1, 3):
            parts.append(leaf(draw, ctx, [x]))
        ctx.wants_shared_terms = True
        return ["or", f(), list(draw(st.permutations(parts)))]
    if t == "not_and_then_other":
        # not(a(x) & b(y)) & c(y) - the disjunction De Morgan makes of the negated conjunction stands left of a condition
        # on y - or not((a(x) & b(y)) | not c(y))
        x, y = (draw(st.permutations(list(range(n)))))[:2]
        conj = ["and", f(), [leaf(draw, ctx, [x]), leaf(draw, ctx, [y])]]
        if draw(st.booleans()):
            return ["and", f(), [["not", draw(st.sampled_from(["not_", "~"])), conj], leaf(draw, ctx, [y])]]
        return ["not", "not_", ["or", f(), [conj, ["not", "not_", leaf(draw, ctx, [y])]]]]
    if t == "and_left_or_then_other":
        # (s(x) | j(x, y)) & c(y): the disjunction on the LEFT passes several bindings of y for one x to a condition on y
        x, y = (draw(st.permutations(list(range(n)))))[:2]
        o = ["or", f(), [leaf(draw, ctx, [x]), leaf(draw, ctx, [x, y])]]
        if chance(draw, 1, 3):
            o[2].reverse()
        return ["and", f(), [o, leaf(draw, ctx, [y])]]
    if t == "and_right_nested_cross":
        # c(x) & (a(y) & b(x)): the inner conjunction is entered with x bound, its LEFT operand is over another variable
        x, y = (draw(st.permutations(list(range(n)))))[:2]
        last = leaf(draw, ctx, draw(st.sampled_from([[x], [x], [x, y]])))
        return ["and", draw(st.sampled_from(["binr", "binr", "nary"])), [leaf(draw, ctx, [x]), leaf(draw, ctx, [y]), last]]
    if t == "and_independent":
        x, y = (draw(st.permutations(list(range(n)))))[:2]
        return ["and", f(), [leaf(draw, ctx, [x]), leaf(draw, ctx, [y])]]
    if t == "indep_and_join3":
        # an unrelated conjunct passing several bindings to a relation between the two other variables
        z, x, y = (draw(st.permutations(list(range(n)))))[:3]
        rel = draw(st.sampled_from([["cmp", "!=", ["var", x], ["var", y]], ["cmp", "==", ["attr", ["var", x], "b"], ["attr", ["var", y], "b"]],
                                    leaf(draw, ctx, [x, y])]))
        parts = [leaf(draw, ctx, [z]), rel]
        if draw(st.booleans()):
            parts.reverse()
        return ["and", f(), parts]
    if t == "indep_and_or3":
        # L over one variable, R a disjunction over two OTHER variables: L passes several bindings through to R
        z, x, y = (draw(st.permutations(list(range(n)))))[:3]
        o1 = leaf(draw, ctx, [x])
        o2 = leaf(draw, ctx, draw(st.sampled_from([[y], [y], [x, y]])))
        parts = [leaf(draw, ctx, [z]), ["or", f(), [o1, o2]]]
        conn = draw(st.sampled_from(["and", "and", "or"]))
        return [conn, f(), parts]
    if t == "and_two_ors":
        def an_or():
            x, y = (draw(st.permutations(list(range(n)))))[:2]
            return ["or", f(), [leaf(draw, ctx, [x]), leaf(draw, ctx, draw(st.sampled_from([[y], [x, y]])))]]
        return ["and", f(), [an_or(), an_or()]]
    if t == "or_overlap":
        x, y = (draw(st.permutations(list(range(n)))))[:2]
        return ["or", f(), [leaf(draw, ctx, [x, y]), leaf(draw, ctx, [x])]]
    if t == "subset_only":
        return leaf(draw, ctx, [draw(st.integers(0, n - 1))])
    x = draw(st.integers(0, n - 1))
    if t == "same_var_or":
        return ["or", f(), [leaf(draw, ctx, [x]) for _ in range(draw(st.sampled_from([2, 2, 3])))]]
    if t == "and_of_ors_samevar":
        return ["and", f(), [["or", f(), [leaf(draw, ctx, [x]), leaf(draw, ctx, [x])]],
                             ["or", f(), [leaf(draw, ctx, [x]), leaf(draw, ctx, [x])]]]]
    inner_kind = "and" if t == "not_over_and" else "or"
    inner = [inner_kind, f(), [cond_tree(draw, ctx, 1, True), cond_tree(draw, ctx, 1, True)]]
    return ["not", draw(st.sampled_from(["not_", "~"])), inner]


def _has_not_(c):
    return any(n[0] == "not" for n in _walk_cond(c))


def _walk_cond(c):
    yield c
    if c[0] in ("and", "or"):
        for x in c[2]:
            yield from _walk_cond(x)
    elif c[0] in ("not", "forall"):
        yield from _walk_cond(c[2])
    elif c[0] == "sub":
        yield from _walk_cond(c[3])


def earlier_queries_sharing_comparisons(draw, ctx: Ctx, cond, max_n: int = 2):
    """One or two earlier queries (conditions) that contain comparison leaves of ``cond`` - as the SAME objects once built
    (build.build_query) - in other connectives, so that the comparison is asked for other kinds of results (with or
    without its false results, for all or for part of its bindings) than ``cond`` asks it for."""
    leaves = [n for n in _walk_cond(cond) if n[0] in ("cmp", "in")]
    if not leaves:
        return None
    out = []
    for _ in range(draw(st.integers(1, max_n))):
        k = draw(st.sampled_from(leaves))
        other = leaf(draw, ctx, [draw(st.integers(0, ctx.nvars - 1))])
        shape = draw(st.sampled_from(["alone", "or_left", "or_left", "or_right", "and_left", "and_right", "narrowed_or"]))
        if shape == "alone":
            c = k
        elif shape in ("or_left", "or_right"):
            c = ["or", "nary", [k, other] if shape == "or_left" else [other, k]]
        elif shape in ("and_left", "and_right"):
            c = ["and", "nary", [k, other] if shape == "and_left" else [other, k]]
        else:
            c = ["and", "nary", [leaf(draw, ctx, [draw(st.integers(0, ctx.nvars - 1))]), ["or", "nary", [k, other]]]]
        out.append({"cond": c, "take": draw(st.sampled_from([None, None, None, 1, 2]))})
    return out


# ----------------------------------------------------------------------------- whole query cases

def draw_domains(draw, cfg: Cfg, recs: List[dict], nvars: int):
    """Domains as lists of indices into the pool; optionally shared between variables (self-join)."""
    n = len(recs)
    doms = []
    var_dom = []
    budget = cfg.max_product
    for v in range(nvars):
        if v > 0 and chance(draw, 1, 5):
            j = draw(st.integers(0, len(doms) - 1))      # share an earlier container: self-join on one list
            if max(1, len(doms[j])) <= budget:
                var_dom.append(j)
                budget //= max(1, len(doms[j]))
                continue
        hi = max(cfg.dom[0], min(cfg.dom[1], n, budget))
        lo = min(cfg.dom[0], hi)
        if lo == 0 and hi >= 1 and not chance(draw, cfg.empty_dom[0], cfg.empty_dom[1]):
            lo = 1
        size = draw(st.sampled_from(list(range(lo, hi + 1)) + [hi, hi, max(lo, hi - 1)] + ([0, 0] if lo == 0 else [])))
        idxs = draw(st.permutations(list(range(n))))[:size]
        doms.append(list(idxs))
        var_dom.append(len(doms) - 1)
        budget //= max(1, size)
        budget = max(budget, 1)
    return doms, var_dom


@st.composite
def query_case(draw, cfg: Cfg):
    nvars = draw(st.integers(*cfg.nvars))
    recs = draw_dataset(draw, cfg)
    ctx = Ctx(cfg, recs, nvars)
    doms, var_dom = draw_domains(draw, cfg, recs, nvars)
    # noise: objects of unrelated types inside the domain containers (the variable's type filters them out)
    if cfg.noise and chance(draw, 1, 5):
        base = len(recs)
        recs = recs + [{"cls": "Other", "k": 90, "a": 1}, {"cls": "Foreign", "k": 91}]
        for d in doms:
            if draw(st.booleans()):
                d.insert(draw(st.integers(0, len(d))), base + draw(st.integers(0, 1)))
    if cfg.noise and chance(draw, cfg.foreign_only[0], cfg.foreign_only[1]):
        # a domain that holds no instance of its variable's type at all (only objects of other classes), while instances
        # of the type exist elsewhere: the variable has no value
        if not any(r.get("cls") == "Other" for r in recs):
            recs = recs + [{"cls": "Other", "k": 90, "a": 1}, {"cls": "Foreign", "k": 91}]
        base = next(i for i, r in enumerate(recs) if r.get("cls") == "Other")
        d = doms[draw(st.integers(0, len(doms) - 1))]
        d[:] = [base, base + 1][:draw(st.integers(1, 2))]
    vars_ = [{"dom": var_dom[v], "decl": draw(st.sampled_from(cfg.decls)), "type": "Ent"} for v in range(nvars)]
    for vd in vars_:
        # predicate-form declaration with a field constraint: T(From(d), field=const)
        if chance(draw, cfg.kw_vars[0], cfg.kw_vars[1]):
            P_ = PROFILES[cfg.profile]
            f = draw(st.sampled_from(["a", "b", "s", "o"] if cfg.allow_any else ["a", "b", "s"]))
            v = draw(st.sampled_from(P_["ints"] if f in ("a", "b") else (P_["strs"] if f == "s" else P_["anys"])))
            vd["decl"] = "from"
            vd["kw"] = [[f, enc(v)]]
    if cfg.allow_empty_cond and chance(draw, 1, 15):
        cond = None
    else:
        cond = template_cond(draw, ctx, cfg.force_template)
    case = {"ents": recs, "doms": doms, "vars": vars_, "cond": cond,
            "dom_kind": draw(st.sampled_from(cfg.dom_kinds)),
            "split_top": draw(st.booleans()), "quant": cfg.quant}
    if getattr(ctx, "one_comparison_object_twice", False) and cond is not None and not _has_not_(cond):
        case["one_comparison_object_twice"] = True
    if getattr(ctx, "same_object_plain_and_negated", False):
        case["same_object_plain_and_negated"] = True
        case["share_terms"] = True
        case["later_uses"] = False
    elif chance(draw, 1, 4) or (getattr(ctx, "wants_shared_terms", False) and chance(draw, 2, 3)):
        case["share_terms"] = True      # equal mapping terms are ONE expression object (f = x.a used several times)
        # ... and after the query was built the same objects are mentioned once more, in expressions that are constructed
        # but never evaluated (build.later_uses)
        case["later_uses"] = chance(draw, 1, 3)
    # an evaluation abandoned after k results (the consumer stops, the iterator is closed) precedes the evaluations
    # that are compared: what a query returns must not depend on it (honoured by qcheck.run_query and by C01)
    case["abandon_first"] = draw(st.sampled_from([0, 0, 0, 1, 2]))
    # where the results are requested: outside every block, or inside a symbolic_mode() / rule_mode() block that is open
    # around the consumer (honoured by qcheck.run_query and by C01; what a query returns must not depend on it)
    case["consume_in"] = draw(st.sampled_from([None, None, None, None, "query", "rule"]))
    if cond is not None and chance(draw, cfg.earlier_sharing[0], cfg.earlier_sharing[1]):
        e = earlier_queries_sharing_comparisons(draw, ctx, cond)
        if e:
            case["earlier_queries_sharing_comparisons"] = e
            case["all_queries_built_before_any_is_evaluated"] = draw(st.booleans())
    # selection
    if cfg.select == "first" or nvars == 1 and not cfg.value_terms_in_select:
        sel_vars = [0] if cfg.select == "first" else [0]
        case["sel"] = [["var", 0]]
        case["desc"] = draw(st.sampled_from(cfg.desc))
    else:
        if cfg.select == "all":
            order = draw(st.permutations(list(range(nvars))))
        else:
            k = draw(st.integers(1, nvars))
            order = draw(st.permutations(list(range(nvars))))[:k]
        sel = [["var", v] for v in order]
        if cfg.value_terms_in_select and draw(st.booleans()):
            v = draw(st.sampled_from(list(order)))
            if chance(draw, 1, 4):
                # a value expression is ALL that is selected: entity(x.o), set_of([x.a])
                sel = [draw(st.sampled_from([int_term(draw, ctx, v), ["attr", ent_term(draw, ctx, v), "s"]]
                                            + ([["attr", ent_term(draw, ctx, v), "o"]] * 2 if cfg.allow_any else [])))]
            else:
                sel.insert(draw(st.integers(0, len(sel))), int_term(draw, ctx, v))
        case["sel"] = sel
        case["desc"] = "entity" if (len(sel) == 1 and "entity" in cfg.desc and draw(st.booleans())) else "set_of"
    return case
