"""Shared runner: seeding, sharding, collect-then-shrink, confirmation, evidence.

A property module (``eqlv.props.cNN``) provides

    ID, TITLE, RULE, TECHNIQUE (strings)
    BUDGET = {"quick": (shards, examples_per_shard), "thorough": (...)}
    strategy(tier)              -> hypothesis strategy producing a JSON-able *case*
    check(case)                 -> Outcome
    exhaustive(tier)            -> optional iterable of cases enumerated completely
    render(case)                -> optional short human-readable form for evidence samples

Everything random goes through Hypothesis, seeded from VERIF_SEED; a run is a pure
function of the code under test and that seed.
"""
from __future__ import annotations

import hashlib
import importlib
import json
import multiprocessing as mp
import os
import subprocess
import sys
import time
import traceback
from collections import Counter
from dataclasses import dataclass, field
from typing import Any, Dict, List, Optional

from . import env
from .env import HarnessError, VERIF_DIR


# --------------------------------------------------------------------------- outcome

@dataclass
class Outcome:
    ok: bool
    kind: str = ""              # failure kind: missing_rows, extra_rows, duplicate_rows, wrong_order, exception, ...
    detail: str = ""            # human readable expected/actual
    nontrivial: bool = False    # by the property's stated rule
    classes: List[str] = field(default_factory=list)   # generator classes this case belongs to
    features: List[str] = field(default_factory=list)  # structural features (known-finding matching)
    extra: Dict[str, int] = field(default_factory=dict)  # additional measured counters (e.g. cache_hits)


def fail(kind: str, detail: str, **kw) -> Outcome:
    return Outcome(False, kind, detail, **kw)


def case_hash(case: Any) -> str:
    return hashlib.sha1(json.dumps(case, sort_keys=True, default=str).encode()).hexdigest()[:16]


def load_prop(pid: str):
    env.import_eql()
    return importlib.import_module(f"eqlv.props.{pid.lower()}")


# --------------------------------------------------------------------------- known findings

def load_known_findings() -> List[dict]:
    p = os.path.join(VERIF_DIR, "known_findings.json")
    if not os.path.exists(p):
        return []
    with open(p) as f:
        data = json.load(f)
    return data.get("findings", [])


def open_findings(pid: Optional[str] = None) -> List[dict]:
    return [k for k in load_known_findings()
            if k.get("status") == "open" and (pid is None or k["property"] == pid)]


def open_features() -> set:
    """Features that generators of *non-owner* properties avoid while a finding is open."""
    feats = set()
    for k in open_findings():
        feats.update(k.get("avoid", []))
    return feats


def attribute(pid: str, outcome: Outcome) -> Optional[str]:
    """Return the id of the open known finding this failure belongs to, if any."""
    for k in open_findings():
        if k["property"] == pid:
            if k.get("kinds") and outcome.kind not in k["kinds"]:
                continue
        elif not k.get("excluded_shape_in_other_properties"):
            continue
        if set(k.get("features", [])) <= set(outcome.features):
            return k["id"]
    return None


# --------------------------------------------------------------------------- one case

def run_case(prop, case) -> Outcome:
    """Isolation + the property's check; an exception escaping check() itself is a harness error."""
    leaked = env.reset_eql_state()
    try:
        out = prop.check(case)
    finally:
        env.reset_eql_state()
        env.trim_eql_memory()
    if leaked:
        out.extra["state_bleed_resets"] = out.extra.get("state_bleed_resets", 0) + leaked
    return out


# --------------------------------------------------------------------------- shard worker

class _Found(Exception):
    pass


def _new_stats() -> dict:
    return {"evaluations": 0, "nontrivial_hashes": set(), "classes": Counter(), "samples": {},
            "attributed": Counter(), "extra": Counter(), "failures": [], "rounds": 0,
            "exhaustive_cases": 0, "suppressed_repeat_failures": 0}


def _record(stats, prop, case, out: Outcome):
    stats["evaluations"] += 1
    for c in out.classes:
        stats["classes"][c] += 1
    for k, v in out.extra.items():
        stats["extra"][k] += v
    if out.nontrivial:
        h = case_hash(case)
        if h not in stats["nontrivial_hashes"]:
            stats["nontrivial_hashes"].add(h)
            # keep one sample per class combination, a handful in total
            key = "+".join(sorted(out.classes))[:120]
            if key not in stats["samples"] and len(stats["samples"]) < 8:
                stats["samples"][key] = _render(prop, case)


def _bucket(prop, case, out) -> str:
    """Coarse root-cause bucket of an unattributed failure (collect-then-shrink continues past a bucket once
    one minimal example of it has been collected)."""
    if hasattr(prop, "bucket"):
        return prop.bucket(case, out)
    return out.kind


def _render(prop, case):
    try:
        if hasattr(prop, "render"):
            return prop.render(case)
    except Exception:
        pass
    return case


def shard_main(args) -> dict:
    pid, tier, seed, shard, nshards, n_examples, do_exhaustive, shrink = args
    try:
        return _shard_main(pid, tier, seed, shard, nshards, n_examples, do_exhaustive, shrink)
    except Exception:
        return {"harness_error": traceback.format_exc()}


def _shard_main(pid, tier, seed, shard, nshards, n_examples, do_exhaustive, shrink) -> dict:
    import hypothesis
    from hypothesis import given, settings, HealthCheck, Phase

    prop = load_prop(pid)
    stats = _new_stats()
    excluded_buckets = set()
    state = {"last_fail": None}

    def handle(case, raise_on_fail=True):
        out = run_case(prop, case)
        _record(stats, prop, case, out)
        if out.ok:
            return out
        kf = attribute(pid, out)
        if kf is not None:
            stats["attributed"][kf] += 1
            return out
        bucket = _bucket(prop, case, out)
        if bucket in excluded_buckets:
            stats["suppressed_repeat_failures"] += 1
            return out
        state["last_fail"] = (case, out, bucket)
        if raise_on_fail:
            raise _Found(out.kind + ": " + out.detail[:300])
        return out

    # ---- exhaustive slice (shard 0 enumerates; cheap slices only) -----------------
    if do_exhaustive and hasattr(prop, "exhaustive"):
        for case in prop.exhaustive(tier, shard, nshards):
            stats["exhaustive_cases"] += 1
            out = handle(case, raise_on_fail=False)
            if not out.ok and state["last_fail"] is not None:
                c, o, b = state["last_fail"]
                stats["failures"].append({"case": c, "kind": o.kind, "detail": o.detail, "features": o.features,
                                          "origin": "exhaustive", "bucket": b})
                excluded_buckets.add(b)
                state["last_fail"] = None

    # ---- random generation with collect-then-shrink -------------------------------
    remaining = n_examples
    max_rounds = 5 if tier == "thorough" else 2
    rnd = 0
    while remaining > 0 and rnd < max_rounds:
        phases = [Phase.generate] + ([Phase.shrink] if shrink else [])
        before = stats["evaluations"]

        @hypothesis.seed(seed * 1000 + shard * 10 + rnd)
        @settings(max_examples=remaining, database=None, deadline=None, derandomize=False,
                  report_multiple_bugs=False, phases=phases,
                  suppress_health_check=list(HealthCheck))
        @given(prop.strategy(tier))
        def test(case):
            handle(case)

        try:
            test()
            break
        except _Found:
            case, out, bucket = state["last_fail"]
            stats["failures"].append({"case": case, "kind": out.kind, "detail": out.detail,
                                      "features": out.features, "origin": "random", "bucket": bucket})
            excluded_buckets.add(bucket)
            state["last_fail"] = None
        except hypothesis.errors.FlakyFailure as e:
            # the case failed once and passed when Hypothesis ran it again in this process: the outcome depends on state
            # that survives a case (ours or the library's). It is a candidate like any other: the fresh-process
            # confirmation decides whether it is reported.
            if state["last_fail"] is None:
                raise HarnessError(f"hypothesis error in {pid}: {e!r}")
            case, out, bucket = state["last_fail"]
            stats["failures"].append({"case": case, "kind": out.kind, "detail": out.detail,
                                      "features": out.features, "origin": "random (not reproduced in-process)",
                                      "bucket": bucket})
            excluded_buckets.add(bucket)
            state["last_fail"] = None
        except hypothesis.errors.HypothesisException as e:
            raise HarnessError(f"hypothesis error in {pid}: {e!r}")
        remaining -= max(1, stats["evaluations"] - before)
        rnd += 1
    stats["rounds"] = rnd + 1
    stats["nontrivial_hashes"] = sorted(stats["nontrivial_hashes"])
    stats["classes"] = dict(stats["classes"])
    stats["attributed"] = dict(stats["attributed"])
    stats["extra"] = dict(stats["extra"])
    return stats


# --------------------------------------------------------------------------- replay

def replay_file(pid: str, path: str) -> Outcome:
    prop = load_prop(pid)
    with open(path) as f:
        data = json.load(f)
    case = data["case"] if isinstance(data, dict) and "case" in data else data
    if hasattr(prop, "replay"):
        return prop.replay(case)
    return run_case(prop, case)


def confirm_in_fresh_process(pid: str, path: str, times: int = 3) -> int:
    """Re-run a saved replay in fresh processes; return how many times it failed again."""
    n = 0
    for _ in range(times):
        r = subprocess.run([os.path.join(VERIF_DIR, "check"), pid, "--replay", path, "--quiet"],
                           capture_output=True, text=True,
                           env={**os.environ, "EQLV_NO_EVIDENCE": "1"})
        if r.returncode == 1:
            n += 1
        elif r.returncode != 0:
            raise HarnessError(f"replay of {path} ended with status {r.returncode}:\n{r.stdout}\n{r.stderr}")
    return n


# --------------------------------------------------------------------------- coverage-guided tier

def _run_fuzz(pid: str, prop, seed: int) -> dict:
    """libFuzzer (atheris) over the property's own Hypothesis strategy via fuzz_one_input; the oracle is the property's
    check inside the target (eqlv/fuzz.py).  Half of the processes start from an empty corpus, half from a few random
    buffers.  Campaigns are only approximately reproducible (-seed); the reproducible unit is the JSON case written by
    the target.  Scratch directories live outside /repo and /verif and are removed afterwards."""
    import random
    import shutil
    import tempfile
    procs, runs = prop.FUZZ
    try:
        subprocess.run([sys.executable, "-c", "import atheris"], check=True, capture_output=True,
                       env={**os.environ, "PYTHONPATH": VERIF_DIR + os.pathsep + os.path.join(VERIF_DIR, ".deps")})
    except Exception:
        return {"skipped": "atheris is not importable (run ./setup.sh)", "failures": []}
    scratch = tempfile.mkdtemp(prefix="eqlv_fuzz_")
    t0 = time.time()
    try:
        ps = []
        for i in range(procs):
            corpus = os.path.join(scratch, f"corpus{i}")
            out = os.path.join(scratch, f"out{i}")
            os.makedirs(corpus)
            os.makedirs(out)
            if i % 2 == 1:
                r = random.Random(seed * 100 + i)      # corpus seeding only; never used inside a property
                for j in range(12):
                    with open(os.path.join(corpus, f"seed{j}"), "wb") as fh:
                        fh.write(bytes(r.getrandbits(8) for _ in range(r.choice([256, 512, 1024, 2048]))))
            cmd = [sys.executable, "-m", "eqlv.fuzz", pid, out, f"-runs={runs}", f"-seed={seed * 100 + i + 1}",
                   "-max_len=4096", "-len_control=0", f"-artifact_prefix={out}/", corpus]
            ps.append((out, subprocess.Popen(cmd, cwd=VERIF_DIR, stdout=subprocess.DEVNULL, stderr=subprocess.DEVNULL,
                                             env={**os.environ, "PYTHONHASHSEED": "0", "PYTHONPATH": VERIF_DIR + os.pathsep +
                                                  os.path.join(VERIF_DIR, ".deps")})))
        cases = nontrivial = 0
        failures = []
        for out, p in ps:
            p.wait()
            for name in os.listdir(out):
                path = os.path.join(out, name)
                if name.startswith("counters-"):
                    with open(path) as fh:
                        c = json.load(fh)
                    cases += c["cases"]
                    nontrivial += c["nontrivial"]
                elif name.startswith("atheris-"):
                    with open(path) as fh:
                        d = json.load(fh)
                    failures.append({"case": d["case"], "kind": d["kind"], "detail": d["detail"],
                                     "features": d.get("features", []), "origin": "atheris"})
        return {"engine": "atheris/libFuzzer over fuzz_one_input", "processes": procs, "runs_per_process": runs,
                "cases_executed": cases, "nontrivial_cases": nontrivial, "wall_s": round(time.time() - t0, 1),
                "failures": failures}
    finally:
        shutil.rmtree(scratch, ignore_errors=True)


# --------------------------------------------------------------------------- driver

def run_property(pid: str, tier: str, seed: int) -> int:
    t0 = time.time()
    prop = load_prop(pid)
    shards, per_shard = prop.BUDGET[tier]
    scale = float(os.environ.get("EQLV_SCALE", "1"))
    per_shard = max(1, int(per_shard * scale))
    exit_code = 0
    lines: List[str] = []

    # ---- replay tier: every stored replay of a known finding / fixed defect ---------
    kf_report = []
    for k in [k for k in load_known_findings() if k["property"] == pid]:
        path = os.path.join(VERIF_DIR, k["replay"])
        out = replay_file(pid, path)
        entry = {"id": k["id"], "status": k["status"], "still_fails": not out.ok, "kind": out.kind}
        kf_report.append(entry)
        if k["status"] == "open":
            if not out.ok:
                lines.append(f"KNOWN-FINDING: property={pid} {k['id']} {k['summary']}")
            else:
                lines.append(f"KNOWN-FINDING-GONE: property={pid} {k['id']} (stored replay passes now)")
        elif k["status"] == "fixed" and not out.ok:
            # a fixed defect that is back is a violation like any other
            lines.append(f"VIOLATION property={pid} replay={path}")
            lines.append(f"  regression of fixed defect {k['id']}: {out.kind}: {out.detail[:400]}")
            exit_code = 1

    # ---- generated search, sharded over processes -----------------------------------
    # (EQLV_NO_SHRINK / EQLV_MAX_REPORTS: used by ./selftest only, where one unshrunk failure per patch is enough)
    jobs = [(pid, tier, seed, i, shards, per_shard, True, not os.environ.get("EQLV_NO_SHRINK")) for i in range(shards)]
    nproc = min(shards, int(os.environ.get("EQLV_PROCS", "16")))
    ctx = mp.get_context("fork")
    if nproc <= 1:
        results = [shard_main(j) for j in jobs]
    else:
        with ctx.Pool(nproc, maxtasksperchild=1) as pool:
            results = pool.map(shard_main, jobs, chunksize=1)
    for r in results:
        if "harness_error" in r:
            print(r["harness_error"], file=sys.stderr)
            raise HarnessError(f"shard of {pid} failed")

    merged = _new_stats()
    nontrivial = set()
    for r in results:
        merged["evaluations"] += r["evaluations"]
        merged["exhaustive_cases"] += r["exhaustive_cases"]
        merged["suppressed_repeat_failures"] += r["suppressed_repeat_failures"]
        nontrivial.update(r["nontrivial_hashes"])
        merged["classes"].update(r["classes"])
        merged["attributed"].update(r["attributed"])
        merged["extra"].update(r["extra"])
        for k, v in r["samples"].items():
            if k not in merged["samples"] and len(merged["samples"]) < 8:
                merged["samples"][k] = v
        merged["failures"].extend(r["failures"])

    # ---- coverage-guided tier (thorough only, properties that declare FUZZ) ------------
    fuzz_report = None
    if tier == "thorough" and hasattr(prop, "FUZZ") and not os.environ.get("EQLV_NO_FUZZ"):
        fuzz_report = _run_fuzz(pid, prop, seed)
        for f in fuzz_report.pop("failures"):
            f["bucket"] = f["kind"]
            merged["failures"].append(f)

    # ---- confirm and report failures (deduplicated by bucket) -----------------------
    found_dir = os.path.join(os.environ.get("EQLV_FOUND_DIR") or os.path.join(VERIF_DIR, "found"), pid)
    seen_buckets = set()
    confirmed, unconfirmed = [], []
    MAX_REPORTS = int(os.environ.get("EQLV_MAX_REPORTS", "8"))
    # smallest cases first: they make the best replays
    merged["failures"].sort(key=lambda f: len(json.dumps(f["case"], default=str)))
    for f in merged["failures"]:
        bucket = f["bucket"]
        if bucket in seen_buckets or len(seen_buckets) >= MAX_REPORTS:
            continue
        seen_buckets.add(bucket)
        os.makedirs(found_dir, exist_ok=True)
        path = os.path.join(found_dir, f"{case_hash(f['case'])}.json")
        with open(path, "w") as fh:
            json.dump({"property": pid, "case": f["case"], "kind": f["kind"], "detail": f["detail"],
                       "features": f["features"], "seed": seed, "tier": tier,
                       "rendered": _render(prop, f["case"])}, fh, indent=1, default=str)
        n = confirm_in_fresh_process(pid, path)
        if n > 0:
            confirmed.append((path, f, n))
            lines.append(f"VIOLATION property={pid} replay={path}")
            lines.append(f"  {f['kind']}: {f['detail'][:600]}  (reproduced {n}/3 in fresh processes)")
            exit_code = 1
        else:
            unconfirmed.append(path)

    wall = time.time() - t0
    samples = list(merged["samples"].values())
    if not samples:
        samples = ["(no non-trivial case was generated in this run)"]
    evidence = {
        "property_id": pid, "tier": tier, "seed": seed, "level": "exploration",
        "coverage": {
            "evaluations": merged["evaluations"],
            "distinct_nontrivial": len(nontrivial),
            "rule": prop.RULE,
            "samples": samples,
            "classes": dict(sorted(merged["classes"].items())),
            "exhaustive_slice_cases": merged["exhaustive_cases"],
            "exhaustive": False,
            "shards": shards, "examples_per_shard": per_shard,
            "attributed_to_known_findings": dict(merged["attributed"]),
            "known_findings_replayed": kf_report,
            "unconfirmed_failures": unconfirmed,
            "suppressed_repeat_failures": merged["suppressed_repeat_failures"],
            **{k: v for k, v in merged["extra"].items()},
        },
        "assumptions": getattr(prop, "ASSUMPTIONS", []),
        "wall_s": round(wall, 2),
        "violations": len(confirmed),
    }
    if fuzz_report is not None:
        evidence["coverage"]["coverage_guided"] = fuzz_report
    if hasattr(prop, "EXHAUSTIVE_NOTE"):
        evidence["coverage"]["exhaustive_slice"] = prop.EXHAUSTIVE_NOTE.get(tier, "")
    if not os.environ.get("EQLV_NO_EVIDENCE"):
        os.makedirs(os.path.join(VERIF_DIR, "evidence"), exist_ok=True)
        with open(os.path.join(VERIF_DIR, "evidence", f"{pid}.json"), "w") as fh:
            json.dump(evidence, fh, indent=1, default=str)
    for ln in lines:
        print(ln)
    print(f"{pid} {tier} seed={seed}: {merged['evaluations']} cases, {len(nontrivial)} distinct non-trivial, "
          f"{len(confirmed)} violation(s), {sum(merged['attributed'].values())} attributed to known findings, "
          f"{wall:.1f}s")
    return exit_code
