"""Helpers shared by the query-level properties: reference answers, features, comparisons."""
from __future__ import annotations

import json

import itertools
from collections import Counter
from typing import Any, Dict, List

from . import ast as A
from .world import CLASSES, build_entities, dec
from .build import build_query, rows_of


def var_domains(case, objs) -> List[list]:
    """What each variable ranges over: the members of its container that are instances of its type."""
    out = []
    for vd in case["vars"]:
        cls = CLASSES[vd.get("type", "Ent")]
        if vd.get("decl") == "registry":
            # every instance constructed for the case (the registry is cleared at the start of every case)
            out.append([o for o in objs if isinstance(o, cls) and all(getattr(o, f) == dec(c) for f, c in vd.get("kw", []))])
            continue
        out.append([objs[i] for i in case["doms"][vd["dom"]] if isinstance(objs[i], cls)
                    and all(getattr(objs[i], f) == dec(c) for f, c in vd.get("kw", []))])
    return out


def satisfying(case, objs, cond=None, negate=False) -> List[tuple]:
    """All assignments (tuples indexed by variable) of the Cartesian product that satisfy the condition."""
    doms = var_domains(case, objs)
    cond = case.get("cond") if cond is None else cond
    res = []
    domd = {i: d for i, d in enumerate(doms)}
    for combo in itertools.product(*doms):
        env = dict(enumerate(combo))
        ok = True if cond is None else A.eval_cond(cond, env, domd)
        if ok != negate:
            res.append(combo)
    return res


def project(case, assignment: tuple) -> tuple:
    env = dict(enumerate(assignment))
    return tuple(A.eval_term(t, env) for t in case["sel"])


def ident(row: tuple) -> tuple:
    """Identity key of a row: object identity for entities, value for scalars."""
    return tuple(_key(v) for v in row)


def _key(v):
    if isinstance(v, (int, str, bool, type(None))):
        return ("v", type(v).__name__, v)
    if isinstance(v, tuple):
        return ("t",) + tuple(_key(x) for x in v)
    return ("id", id(v))


def show_rows(rows) -> str:
    return "[" + ", ".join("(" + ", ".join(repr(v) for v in r) + ")" for r in rows) + "]"


def compare_sets(expected: List[tuple], got: List[tuple], multiset: bool):
    """Return (kind, detail) or None."""
    e = Counter(ident(r) for r in expected)
    g = Counter(ident(r) for r in got)
    if set(e) - set(g):
        return "missing_rows", f"expected {show_rows(expected)} got {show_rows(got)}"
    if set(g) - set(e):
        return "extra_rows", f"expected {show_rows(expected)} got {show_rows(got)}"
    if multiset and e != g:
        return "duplicate_rows", f"expected {show_rows(expected)} got {show_rows(got)}"
    return None


def compare_lists(expected: List[tuple], got: List[tuple]):
    e = [ident(r) for r in expected]
    g = [ident(r) for r in got]
    if e == g:
        return None
    se, sg = Counter(e), Counter(g)
    if set(se) - set(sg):
        kind = "missing_rows"
    elif set(sg) - set(se):
        kind = "extra_rows"
    elif se != sg:
        kind = "duplicate_rows"
    else:
        kind = "wrong_order"
    return kind, f"expected {show_rows(expected)} got {show_rows(got)}"


# ----------------------------------------------------------------------------- features

FALSY = (None, False, 0, "", (), [])


def _is_falsy_value(v) -> bool:
    return not v and not isinstance(v, (type,))


def case_features(case, objs=None) -> List[str]:
    """Structural features of a case (used for classification and for known-finding matching)."""
    f = set()
    c = case.get("cond")
    nv = len(case["vars"])
    f.add(f"vars{nv}")
    if c is None:
        f.add("no_cond")
        return sorted(f)
    if A.not_under_not(c):
        f.add("not_under_not")
    if case.get("earlier_queries_sharing_comparisons"):
        f.add("comparison_objects_used_in_earlier_queries")
    if case.get("same_object_plain_and_negated"):
        f.add("same_object_plain_and_negated")
    if case.get("one_comparison_object_twice"):
        f.add("one_comparison_object_twice")
    if case.get("share_terms"):
        seen, rep = set(), False
        occ = [("truth", n[1]) for n in A.walk(c) if n[0] == "truth"] + [("value", t) for t in A.terms_of(c)] + \
              [("value", t) for t in case.get("sel", [])]
        for _, t in occ:
            while t[0] in ("attr", "idx", "call"):
                key = json.dumps(t, sort_keys=True)
                rep = rep or key in seen
                seen.add(key)
                t = t[1]
        if rep:
            f.add("shared_term_objects")
    for n in A.walk(c):
        k = n[0]
        if k in ("and", "or", "not"):
            f.add(k)
        if k == "not" and n[2][0] in ("and", "or"):
            f.add("not_over_" + n[2][0])
        if k == "or":
            vs = [frozenset(A.cond_vars(x)) for x in n[2]]
            f.add("or_same_vars" if all(v == vs[0] for v in vs) else "or_diff_vars")
        if k == "and":
            for x in n[2][1:]:
                if x[0] == "or":
                    f.add("and_right_or")
        if k in ("fpred", "cpred", "hastype"):
            f.add("pred")
        if k == "truth":
            f.add("truth")
        if k == "in":
            f.add("membership")
        if k == "cmp":
            f.add("cmp" + n[1])
            if n[2][0] == "const":
                f.add("literal_left")
    for t in A.terms_of(c):
        if A.chain_len(t) >= 2:
            f.add("chained")
        for kind in ("idx", "call"):
            if _term_has(t, kind):
                f.add(kind)
    if nv >= 2:
        if any(len(A.cond_vars(n)) >= 2 for n in A.walk(c) if n[0] not in ("and", "or", "not")):
            f.add("join")
        if len(A.cond_vars(c)) < nv:
            f.add("unconstrained_var")
        doms = [v["dom"] for v in case["vars"]]
        if len(set(doms)) < len(doms):
            f.add("self_join")
    if case.get("dom_kind") == "gen":
        f.add("generator_domain")
    if any(r.get("cls") in ("Other", "Foreign") for r in case["ents"]):
        f.add("mixed_types")
    if any(not d for d in case["doms"]):
        f.add("empty_domain")
    if any(v.get("kw") for v in case["vars"]):
        f.add("predicate_form_var")
        # KF-43: a nested sub-query that SELECTS a predicate-form variable (itself a sub-query over its field constraints),
        # beneath a disjunction or negation: the false results of the nested query bind the variable to objects that fail
        # its field constraints, and the other operand then takes them for values of it
        kwv = {i for i, v in enumerate(case["vars"]) if v.get("kw")}

        def sub_under(n, inside):
            if n[0] in ("or", "not"):
                inside = True
            if n[0] in ("and", "or"):
                return any(sub_under(x, inside) for x in n[2])
            if n[0] in ("not", "forall"):
                return sub_under(n[2], inside)
            if n[0] == "sub":
                return (inside and bool(set(n[2]) & kwv)) or sub_under(n[3], inside)
            return False
        if sub_under(c, False):
            f.add("subquery_selects_predicate_form_var_under_disjunction")
    # a variable whose (type-filtered) domain is empty and that occurs beneath a disjunction (or a negation, which
    # De Morgan turns into one): the engine never reaches it on the other disjunct
    def _rec_val(r, f):
        v = r.get(f)
        return dec(v) if f == "o" else (tuple(v) if f == "tags" else v)
    empty_vars = {i for i, v in enumerate(case["vars"])
                  if not [j for j in case["doms"][v["dom"]]
                          if case["ents"][j].get("cls", "Ent") in ("Ent", "EntKw", "EntSub", "EntSubSub", "EntPlain", "EntV")
                          and all(_rec_val(case["ents"][j], f) == dec(c) for f, c in v.get("kw", []))]}
    if empty_vars:
        def under(n, inside):
            if n[0] in ("or", "not"):
                inside = True
            if n[0] in ("and", "or"):
                return any(under(x, inside) for x in n[2])
            if n[0] in ("not", "forall"):
                return under(n[2], inside)
            if n[0] == "sub":
                # (a sub-query mentions the variables it selects, also when its condition does not)
                return (inside and bool(set(n[2]) & empty_vars)) or under(n[3], inside)
            return inside and bool(A.cond_vars(n) & empty_vars)
        if under(c, False):
            f.add("empty_domain_under_disjunction")
    return sorted(f)


def _term_has(t, kind) -> bool:
    while t[0] not in ("var", "const", "pcall"):
        if t[0] == kind:
            return True
        t = t[1]
    return False


def falsy_in_play(case, objs) -> bool:
    """Some value-position operand of a leaf evaluates to a falsy value on some assignment, or is a falsy constant."""
    c = case.get("cond")
    if c is None:
        return False
    doms = var_domains(case, objs)
    for t in A.terms_of(c):
        if t[0] == "const":
            if not dec(t[1]):
                return True
            continue
        vs = sorted(A.term_vars(t))
        for combo in itertools.product(*[doms[v] for v in vs]):
            try:
                if not A.eval_term(t, dict(zip(vs, combo))):
                    return True
            except Exception:
                pass
    return False


# ----------------------------------------------------------------------------- generic query evaluation

def used_vars(case) -> List[int]:
    c = case.get("cond")
    used = set() if c is None else set(A.cond_vars(c))
    for t in case["sel"]:
        used |= A.term_vars(t)
    return sorted(used)


def reference_rows(case, objs, negate=False):
    """(expected projected rows, number of satisfying assignments, size of the product) over the query's variables."""
    doms = var_domains(case, objs)
    used = used_vars(case)
    cond = case.get("cond")
    domd = {i: d for i, d in enumerate(doms)}
    rows, n_sat, n_all = [], 0, 0
    for combo in itertools.product(*[doms[v] for v in used]):
        env = dict(zip(used, combo))
        n_all += 1
        ok = True if cond is None else A.eval_cond(cond, env, domd)
        if ok != negate:
            n_sat += 1
            rows.append(tuple(A.eval_term(t, env) for t in case["sel"]))
    return rows, n_sat, n_all


def all_vars_selected(case) -> bool:
    plain = {t[1] for t in case["sel"] if t[0] == "var"}
    return set(used_vars(case)) <= plain


class ReevaluationDiffers(Exception):
    pass


_NOTHING = object()


def abandon(q, k):
    """Start an evaluation of an `an` query, take k results, close the iterator (nothing for k == 0 or a `the` query)."""
    if not k or not hasattr(q, "evaluate") or type(q).__name__ == "The":
        return
    it = q.evaluate()
    try:
        for _ in range(k):
            if next(it, _NOTHING) is _NOTHING:
                break
    finally:
        close = getattr(it, "close", None)
        if close:
            close()


def ambient(case):
    """The block that is open around the consumer of the results (case["consume_in"]), or nothing."""
    import contextlib
    from entity_query_language import symbolic_mode, rule_mode
    where = case.get("consume_in")
    return symbolic_mode() if where == "query" else (rule_mode() if where == "rule" else contextlib.nullcontext())


def run_query(case, objs, negate=0, quant=None, times=1):
    """Build freshly and evaluate; returns (rows, built).  With times > 1 the same query object is evaluated again and
    every evaluation must return the row set of the first one (ReevaluationDiffers otherwise)."""
    built = build_query(case, objs, negate=negate, quant=quant)
    with ambient(case):
        abandon(built.q, case.get("abandon_first", 0))
        res = list(built.q.evaluate())
    first = rows_of(built, res)
    for n in range(2, times + 1):
        with ambient(case):
            again = rows_of(built, list(built.q.evaluate()))
        if {ident(r) for r in again} != {ident(r) for r in first}:
            raise ReevaluationDiffers(f"evaluation {n} of the same query object gave {show_rows(again)}, the first one "
                                      f"{show_rows(first)}")
    return first, built


def row_consistency(case, rows):
    """Each selected expression's value equals that expression evaluated on the row's own variable values."""
    pos = {t[1]: i for i, t in enumerate(case["sel"]) if t[0] == "var"}
    for r in rows:
        env = {v: r[i] for v, i in pos.items()}
        for i, t in enumerate(case["sel"]):
            if t[0] == "var" or not A.term_vars(t) <= set(env):
                continue
            want = A.eval_term(t, env)
            if _key(want) != _key(r[i]):
                return f"row {r}: selected {A.r_term(t)} is {r[i]!r} but evaluates to {want!r} on the row's own variables"
    return None


def render_query(case):
    ents = []
    for i, r in enumerate(case["ents"]):
        if r.get("cls") in ("Other", "Foreign"):
            ents.append(f"#{i}:{r['cls']}")
        else:
            ents.append(f"#{i}:{r['cls']}(a={r['a']},b={r['b']},s={r['s']!r},tags={r.get('tags')},o={dec(r.get('o', 1))!r},"
                        f"ref=#{r.get('ref')},kids={r.get('kids')})")
    return {"entities": ents,
            "vars": [f"v{i}={v.get('decl', 'let')}({v.get('type', 'Ent')}, dom{v['dom']}"
                     + "".join(f", {f}={dec(c)!r}" for f, c in v.get("kw", [])) + ")" for i, v in enumerate(case["vars"])],
            "doms": case["doms"], "dom_kind": case.get("dom_kind"),
            "cond": A.r_cond(case["cond"]) if case.get("cond") is not None else None,
            "split_top": case.get("split_top"),
            "select": f"{case.get('desc')}[{', '.join(A.r_term(t) for t in case['sel'])}]", "quant": case.get("quant", "an"),
            **({"results_requested_inside": case["consume_in"] + " block"} if case.get("consume_in") else {}),
            **({"earlier_query_sharing_the_expression_objects": A.r_cond(case["prelude"])} if case.get("prelude") is not None else {}),
            **({"earlier_queries_sharing_the_comparison_objects": [
                A.r_cond(e["cond"]) + ("" if e.get("take") is None else f" [given up after {e['take']} result(s)]")
                for e in case["earlier_queries_sharing_comparisons"]],
                "all_queries_built_before_any_is_evaluated": bool(case.get("all_queries_built_before_any_is_evaluated"))}
               if case.get("earlier_queries_sharing_comparisons") else {})}
