"""Coverage-guided tier: libFuzzer (atheris) drives the SAME Hypothesis strategy of a property through
``fuzz_one_input``; the oracle is the property's own check, inside the target.

    python -m eqlv.fuzz <PID> <out_dir> [libFuzzer args: -runs=N -seed=S corpus_dir]

The library modules are instrumented for coverage feedback.  A failing case is written as JSON to <out_dir> before
the target raises, so the reproducible unit is the JSON replay, not the libFuzzer byte buffer.
"""
import json
import os
import sys


def main():
    pid, out_dir = sys.argv[1], sys.argv[2]
    argv = [sys.argv[0]] + sys.argv[3:]
    import atheris
    from . import env
    with atheris.instrument_imports(include=["entity_query_language"]):
        env.import_eql()
        import entity_query_language.symbolic      # noqa: F401
        import entity_query_language.cache_data    # noqa: F401
        import entity_query_language.predicate     # noqa: F401
        import entity_query_language.conclusion_selector  # noqa: F401
        import entity_query_language.rule          # noqa: F401
    from hypothesis import given, settings, HealthCheck
    from . import runner
    prop = runner.load_prop(pid)
    counters = {"cases": 0, "nontrivial": 0}

    @settings(database=None, deadline=None, suppress_health_check=list(HealthCheck))
    @given(prop.strategy("thorough"))
    def test(case):
        out = runner.run_case(prop, case)
        counters["cases"] += 1
        if out.nontrivial:
            counters["nontrivial"] += 1
        if not out.ok and runner.attribute(pid, out) is None:
            os.makedirs(out_dir, exist_ok=True)
            path = os.path.join(out_dir, f"atheris-{runner.case_hash(case)}.json")
            with open(path, "w") as fh:
                json.dump({"property": pid, "case": case, "kind": out.kind, "detail": out.detail,
                           "features": out.features, "origin": "atheris"}, fh, indent=1, default=str)
            raise AssertionError(f"{out.kind}: {out.detail[:300]}")

    def write_counters():
        os.makedirs(out_dir, exist_ok=True)
        with open(os.path.join(out_dir, f"counters-{os.getpid()}.json"), "w") as fh:
            json.dump(counters, fh)

    def target(data):
        try:
            test.hypothesis.fuzz_one_input(data)
        finally:
            if counters["cases"] % 200 == 0:
                write_counters()

    atheris.Setup(argv, target)
    try:
        atheris.Fuzz()
    finally:
        write_counters()


if __name__ == "__main__":
    main()
