"""eqlv - property-based verification harness for entity_query_language (see /verif/DESIGN.md)."""
