"""Dataset vocabulary of the harness: @symbol classes, value codec, dataset (de)serialisation.

Classes are created once at import.  Entities have identity semantics (``eq=False``): ``==``
between two entities is ``is``, exactly as the Python-semantics oracle evaluates it.
"""
from __future__ import annotations

from dataclasses import dataclass, field
from typing import Any, List

from . import env

env.import_eql()

from entity_query_language import symbol, predicate, Predicate  # noqa: E402


@symbol
@dataclass(eq=False)
class Ent:
    k: int                      # unique per dataset, >= 1
    a: int = 1                  # small int (0 allowed in the falsy profile)
    b: int = 1
    s: str = "x"                # string ("" allowed in the falsy profile)
    tags: tuple = (1,)          # tuple of small ints (may be empty in the falsy profile)
    o: Any = 1                  # "anything" slot: None, False, True, 0, "", (), [], 1, "x" ... (==, !=, in only)
    ref: Any = None             # another entity of the dataset (never None)
    kids: list = field(default_factory=list)   # list of entities of the dataset
    d: dict = field(default_factory=dict)      # {"p": int, "q": int}

    def is_big(self) -> bool:
        return self.k >= 2

    def at_least(self, n) -> bool:
        return self.a >= n

    def pick(self, i):
        return self.tags[i]

    def val(self):
        return self.a

    def rows(self):             # two levels: a list of collections
        return [list(self.tags), tuple(reversed(self.tags)), [self.a]]

    def kids_now(self):         # a NEW list at every call (computed on demand, by a comprehension)
        return [k_ for k_ in self.kids]

    def tags_now(self):
        return [t_ for t_ in self.tags]

    def heavy(self) -> bool:    # user code that itself calls a @predicate function (concretely: it is not in a block)
        return p_k_ge(self, 2)

    def twin(self):             # user code that itself constructs a @symbol class
        return Twin(self.k, self.a)

    @property
    def dbl(self):              # a computed attribute: not a constructor parameter, but a legitimate keyword of a term
        return self.a * 2

    def __repr__(self):
        return f"{type(self).__name__}#{self.k}"


@symbol
@dataclass(eq=False, repr=False)
class EntSub(Ent):
    pass


@dataclass(eq=False, repr=False)
class EntPlain(Ent):          # undecorated subclass of a decorated class
    pass


@dataclass(eq=False, repr=False)
class EntSubSub(EntSub):      # grandchild (undecorated) of the decorated root
    pass


@symbol
@dataclass(eq=False, repr=False)
class EntV(Ent):              # VALUE equality (like the repository's own test classes): distinct objects can be ==
    def __eq__(self, other):
        return isinstance(other, EntV) and (self.a, self.b, self.s, self.tags) == (other.a, other.b, other.s, other.tags)

    def __hash__(self):
        return hash((self.a, self.b, self.s, self.tags))


@dataclass(eq=False)
class KwMixin:                # a keyword-only field that dataclasses.fields() lists FIRST and __init__ takes LAST
    w: int = field(default=5, kw_only=True)


@symbol
@dataclass(eq=False, repr=False)
class EntKw(Ent, KwMixin):    # positional parameters k, a, b, ... ; w only by keyword (the docs' WorldEntity.world pattern)
    pass


@symbol
@dataclass(eq=False)
class Other:                  # unrelated decorated class, for mixed-type domains and joins
    k: int
    a: int = 1
    ref: Any = None

    def __repr__(self):
        return f"Other#{self.k}"


@symbol
@dataclass(eq=False)
class Twin:                   # built by Ent.twin() while a condition is evaluated
    k: int
    a: int = 1


CONSTRUCTED = {"Made": 0, "Pair": 0, "MadeKw": 0, "MadeEmpty": 0}   # construction counters (real instances only: __post_init__ ran)


@symbol
@dataclass(eq=False)
class Made:                   # target of rule inference: built from one binding
    src: Any
    val: Any = 0
    extra: Any = "dflt"

    def __post_init__(self):
        CONSTRUCTED["Made"] += 1

    def __repr__(self):
        return f"Made({self.src!r}, {self.val!r}, {self.extra!r})"


@symbol
@dataclass(eq=False, repr=False)
class MadeKw(Made, KwMixin):  # dataclasses.fields() lists the keyword-only w FIRST, __init__ takes src, val, extra positionally
    def __post_init__(self):
        CONSTRUCTED["MadeKw"] += 1


@symbol
@dataclass(eq=False, repr=False)
class MadeEmpty(Made):        # an instance that is FALSY (a container-like class whose __len__ is 0): still an instance
    def __post_init__(self):
        CONSTRUCTED["MadeEmpty"] += 1

    def __len__(self):
        return 0


@symbol
@dataclass(eq=False)
class Pair:                   # target of rule inference over two variables
    left: Any
    right: Any
    tag: Any = 0

    def __post_init__(self):
        CONSTRUCTED["Pair"] += 1

    def __repr__(self):
        return f"Pair({self.left!r}, {self.right!r}, {self.tag!r})"


@symbol
@dataclass(eq=False)
class Tag:                    # base class of rule-tree conclusions; TagN tells which node of the tree fired
    x: Any
    y: Any = None

    def __repr__(self):
        return f"{type(self).__name__}({self.x!r}, {self.y!r})"


TAGS = []
for _i in range(8):
    _cls = symbol(dataclass(eq=False, repr=False)(type(f"Tag{_i}", (Tag,), {"__annotations__": {}})))
    TAGS.append(_cls)
    globals()[f"Tag{_i}"] = _cls


class Foreign:                # unrelated undecorated class
    def __init__(self, k):
        self.k = k
        self.a = k

    def __repr__(self):
        return f"Foreign#{self.k}"


CLASSES = {"Ent": Ent, "EntKw": EntKw, "EntSub": EntSub, "EntSubSub": EntSubSub, "EntPlain": EntPlain, "EntV": EntV, "Other": Other, "Foreign": Foreign, "Made": Made,
           "Pair": Pair, "MadeKw": MadeKw, "MadeEmpty": MadeEmpty}


TYPES = {**CLASSES, "int": int, "tuple": tuple}      # what HasType may test for (values as well as entities)


# ---- predicates (function form and class form) ---------------------------------------------

@predicate
def p_a_ge(e, n):
    """function predicate over one entity and a constant"""
    return e.a >= n


@predicate
def p_k_ge(e, n):
    """called from Ent.heavy(), never directly in a condition"""
    return e.k >= n


@predicate
def p_n_le_a(n, e):
    """function predicate whose FIRST argument is the constant and whose second is the entity"""
    return e.a >= n


def py_p_n_le_a(n, e):
    return e.a >= n


@predicate
def p_val_eq(v, w):
    """function predicate over two VALUES (any value may be passed on, falsy ones included)"""
    return v == w


def py_p_val_eq(v, w):
    return v == w


@predicate
def p_echo(v, w=None):
    """returns what it was called with: outside every block the body runs, whatever the arguments are"""
    return ("ran", v, w)


@predicate
def p_a_ge_dflt(e, n=1):
    """function predicate with a DEFAULTED parameter, which may be passed positionally, by keyword, or left out"""
    return e.a >= n


def py_p_a_ge_dflt(e, n=1):
    return e.a >= n


@predicate
def p_val(e):
    """a @predicate function whose result is a VALUE (an int, possibly 0), used as an operand or selected"""
    return e.a


def py_p_val(e):
    return e.a


@predicate
def p_a_lt(e, f):
    """function predicate relating two entities"""
    return e.a < f.a


@predicate
def p_same_b(e, f):
    return e.b == f.b


# fault injection for C04: when armed, the predicate raises at its j-th call (counted from 1)
FAULT = {"armed": False, "calls": 0, "at": 0}


class InjectedFault(RuntimeError):
    pass


@predicate
def p_flaky(e, n):
    if FAULT["armed"]:
        FAULT["calls"] += 1
        if FAULT["calls"] == FAULT["at"]:
            raise InjectedFault(f"injected fault at call {FAULT['at']}")
    return e.a >= n


def py_p_flaky(e, n):
    return e.a >= n


@predicate
def p_runs_subquery(e, n):
    """a user predicate whose body opens a symbolic block of its own and evaluates a small query"""
    from entity_query_language import an, entity, let, symbolic_mode
    with symbolic_mode():
        x = let(Ent, domain=[e])
        q = an(entity(x, x.a >= n))
    return len(list(q.evaluate())) == 1


@predicate
def p_runs_subquery_inside(e, n):
    """like p_runs_subquery, but the nested query (which uses a Predicate subclass and HasType) is also EVALUATED while the
    block this function opened is still open"""
    from entity_query_language import an, entity, let, symbolic_mode, HasType
    with symbolic_mode():
        x = let(Ent, domain=[e])
        q = an(entity(x, x.a >= n, IsBig(x), HasType(x, Ent)))
        found = list(q.evaluate())
    return len(found) == 1


def py_p_runs_subquery_inside(e, n):
    return e.a >= n and e.k >= 2


def py_p_runs_subquery(e, n):
    return e.a >= n


def py_p_a_ge(e, n):
    return e.a >= n


def py_p_a_lt(e, f):
    return e.a < f.a


def py_p_same_b(e, f):
    return e.b == f.b


@dataclass(eq=False)
class IsBig(Predicate):
    e: Any

    def __call__(self):
        return self.e.k >= 2


@dataclass(eq=False)
class BLess(Predicate):
    e: Any
    f: Any

    def __call__(self):
        return self.e.b < self.f.b


FUNC_PREDS = {"p_val": (p_val, py_p_val), "p_a_ge_dflt": (p_a_ge_dflt, py_p_a_ge_dflt), "p_runs_subquery_inside": (p_runs_subquery_inside, py_p_runs_subquery_inside), "p_val_eq": (p_val_eq, py_p_val_eq), "p_n_le_a": (p_n_le_a, py_p_n_le_a), "p_runs_subquery": (p_runs_subquery, py_p_runs_subquery), "p_flaky": (p_flaky, py_p_flaky), "p_a_ge": (p_a_ge, py_p_a_ge), "p_a_lt": (p_a_lt, py_p_a_lt), "p_same_b": (p_same_b, py_p_same_b)}
CLASS_PREDS = {"IsBig": (IsBig, lambda e: e.k >= 2), "BLess": (BLess, lambda e, f: e.b < f.b)}


# ---- value codec ------------------------------------------------------------------------------

def enc(v):
    """Encode a Python value of the small value universe as JSON, keeping (), [], None, False, 0 apart."""
    if v is None:
        return ["N"]
    if isinstance(v, bool):
        return ["B", int(v)]
    if isinstance(v, (int, str)):
        return v
    if isinstance(v, tuple):
        return ["T", [enc(x) for x in v]]
    if isinstance(v, list):
        return ["L", [enc(x) for x in v]]
    raise TypeError(f"cannot encode {v!r}")


def dec(j):
    if isinstance(j, (int, str)) and not isinstance(j, bool):
        return j
    if isinstance(j, list):
        if j[0] == "N":
            return None
        if j[0] == "B":
            return bool(j[1])
        if j[0] == "T":
            return tuple(dec(x) for x in j[1])
        if j[0] == "L":
            return [dec(x) for x in j[1]]
    raise TypeError(f"cannot decode {j!r}")


# ---- datasets ------------------------------------------------------------------------------------

def build_entities(records: List[dict]) -> List[Any]:
    """Instantiate a dataset.  Must be called outside symbolic mode (the objects are real instances)."""
    objs = []
    for r in records:
        cls = CLASSES[r.get("cls", "Ent")]
        if cls is Foreign:
            objs.append(Foreign(r["k"]))
        elif cls is Other:
            objs.append(Other(k=r["k"], a=r.get("a", 1)))
        else:
            objs.append(cls(k=r["k"], a=r.get("a", 1), b=r.get("b", 1), s=r.get("s", "x"),
                            tags=tuple(r.get("tags", [1])), o=dec(r.get("o", 1)),
                            d=dict(r.get("d", {"p": 1, "q": 2})), **({"w": r.get("a", 1)} if cls is EntKw else {})))
    for r, o in zip(records, objs):
        if isinstance(o, Foreign):
            continue
        ref = r.get("ref")
        o.ref = objs[ref] if ref is not None else o
        if isinstance(o, Ent):
            o.kids = [objs[i] for i in r.get("kids", [])]
    return objs


def snapshot(objs) -> list:
    """Observable state of the dataset objects, for 'evaluation never modifies the user's objects'."""
    out = []
    for o in objs:
        d = dict(vars(o))
        out.append({k: (id(v), repr(v) if not isinstance(v, (list, dict)) else
                        (tuple(id(x) for x in v) if isinstance(v, list) else tuple(sorted(v.items()))))
                    for k, v in d.items()})
    return out
