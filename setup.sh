#!/bin/bash
# Offline setup: make sure hypothesis is importable by /venv/bin/python (it is pre-installed in this image; install
# from the offline wheelhouse if a fresh restore lacks it), and put atheris beside it for the fuzzing tier.
set -u
cd "$(dirname "${BASH_SOURCE[0]}")"
PY=/venv/bin/python
if ! $PY -c "import hypothesis" 2>/dev/null; then
  /venv/bin/pip install --no-index --find-links /opt/veriftools/wheels hypothesis || exit 1
fi
if ! PYTHONPATH=.deps $PY -c "import atheris" 2>/dev/null; then
  /venv/bin/pip install --no-index --find-links /opt/veriftools/wheels --target .deps atheris >/dev/null 2>&1 || \
    echo "setup: atheris not installed (fuzzing tier will be skipped)"
fi
$PY -c "import hypothesis, sys; print('hypothesis', hypothesis.__version__)" || exit 1
exit 0
